package main

// Replays Limits.tla scenarios through NewEventFromUntrustedJSON (receipt), EventBuilder.Build (build)
// and NewEventFromTrustedJSON + CheckFields (checkfields); the observable is the error class:
// nil / EventValidationError{Code: TooLarge, Persistable}.

import (
	"encoding/json"
	"errors"
	"fmt"
	"strings"
	"unicode/utf8"

	gmsl "github.com/matrix-org/gomatrixserverlib"
	"verifharness/hx"
)

type shapeRec struct {
	Cps   int `json:"cps"`
	NWide int `json:"nwide"`
	Width int `json:"width"`
	Bytes int `json:"bytes"`
}

type limitsRec struct {
	Fam    string              `json:"fam"`
	Ver    string              `json:"ver"`
	Path   string              `json:"path"`
	Hash   string              `json:"hash"`
	Size   int                 `json:"size"`
	SizeOf string              `json:"sizeof"`
	Create bool                `json:"create"`
	Fields map[string]shapeRec `json:"fields"`
	Want   string              `json:"want"`
	VClass string              `json:"vclass"`
	Desc   string              `json:"desc"`
	// family "place" (limits_place.go): where the bulk of the bytes is, the bytes without the unsigned member,
	// how the event reaches the operation, the bytes before SetUnsigned / Sign, the second admissible outcome
	// (equal to want except for a receipt that is over the limit only with the member the receiver drops), and
	// what CheckFields says before SetUnsigned / Sign
	Place  string `json:"place"`
	Proper int    `json:"proper"`
	Via    string `json:"via"`
	Base   int    `json:"base"`
	Alt    string `json:"alt"`
	Pre    string `json:"pre"`
	// what is handed on with the judgement (limits_ret.go): for the judgement `want`, and for `alt`
	Ret    retRec `json:"ret"`
	RetAlt retRec `json:"retalt"`
}

func init() {
	hx.Register("limits", "replay Limits.tla scenarios (receipt / build / CheckFields)", func(a *hx.Args) error {
		return hx.ReplayAll(a, func(i int, raw json.RawMessage) hx.Result {
			var head struct {
				Path string `json:"path"`
			}
			if err := json.Unmarshal(raw, &head); err != nil {
				fatalf("bad record: %v", err)
			}
			if head.Path == "list" {
				return batchReplay(raw)
			}
			return limitsReplay(raw)
		})
	})
}

// filler realises a shape: frame characters around cps-frame filler characters, nwide of them wide.
func fieldValue(field string, sh shapeRec, natural string) string {
	if sh.Cps == 0 {
		return natural
	}
	pre, post := "", ""
	switch field {
	case "sender":
		pre, post = "@", ":hs1"
	case "room_id":
		pre, post = "!", ":hs1"
	}
	nfill := sh.Cps - len(pre) - len(post)
	wide := "é"
	if sh.Width == 4 {
		wide = "\U0001F600"
	}
	v := pre + strings.Repeat(wide, sh.NWide) + strings.Repeat("x", nfill-sh.NWide) + post
	if utf8.RuneCountInString(v) != sh.Cps || len(v) != sh.Bytes {
		fatalf("concretiser: field %s realised with %d code points / %d bytes, the model says %d / %d", field, utf8.RuneCountInString(v), len(v), sh.Cps, sh.Bytes)
	}
	return v
}

func classify(err error) string {
	if err == nil {
		return "ok"
	}
	var ve gmsl.EventValidationError
	if errors.As(err, &ve) && ve.Code == gmsl.EventValidationTooLarge {
		if ve.Persistable {
			return "persistable"
		}
		return "refused"
	}
	var vp *gmsl.EventValidationError
	if errors.As(err, &vp) && vp.Code == gmsl.EventValidationTooLarge {
		if vp.Persistable {
			return "persistable"
		}
		return "refused"
	}
	return "othererror"
}

// input is one JSON document handed to NewEventFromUntrustedJSON.
type input struct {
	via  string
	json []byte
}

// survivingLen is the size of what survives redaction (canonical JSON of the version's redaction).
func survivingLen(v gmsl.IRoomVersion, eventJSON []byte) int {
	red, err := v.RedactEventJSON(eventJSON)
	if err != nil {
		fatalf("redaction of a generated event failed: %v", err)
	}
	c, err := gmsl.CanonicalJSON(red)
	if err != nil {
		fatalf("canonical JSON of a redacted event: %v", err)
	}
	return len(c)
}

func fakeID(n, length int) string {
	s := fmt.Sprintf("$%04d", n)
	return s + strings.Repeat("A", length-len(s))
}

// mismatchInputs makes received JSON whose content hash does not match.
//   - mismatch: the content was altered after hashing; redaction strips the alteration, so the receiver
//     re-parses the redacted form;
//   - mismatch_same: empty content, no origin key, a wrong hash value: redaction leaves the JSON as it is.
//
// Size scenarios grow the event through auth_events (or, family "place" with the bulk in prev_events, through
// that list; redaction keeps both) until the JSON named by r.SizeOf (received / surviving / both) has exactly
// r.Size bytes.
func mismatchInputs(r limitsRec, v gmsl.IRoomVersion, f evFields, built gmsl.PDU) []input {
	spoil := func(signed []byte) []byte {
		if r.Hash == "mismatch" {
			return withKey(signed, "content", map[string]string{"body": "altered after hashing"})
		}
		return withKey(signed, "hashes", map[string]string{"sha256": "AAAAAAAAAAAAAAAAAAAAAAAAAAAAAAAAAAAAAAAAAAA"})
	}
	make1 := func(auth []string) []byte {
		g := f
		if r.Place == "prev_events" {
			g.Prev = auth
		} else {
			g.Auth = auth
		}
		g.Content = json.RawMessage(`{}`)
		g.NoOrigin = r.Hash == "mismatch_same"
		return spoil(handSigned(r.Ver, v, g))
	}
	measure := func(in []byte) int {
		if r.SizeOf == "surviving" {
			return survivingLen(v, in)
		}
		return len(in)
	}
	if r.Size == 0 {
		out := []input{{"hand-signed JSON, hash " + r.Hash, make1(nil)}}
		if built != nil && r.Hash == "mismatch" {
			out = append(out, input{"JSON made by EventBuilder.Build, content altered afterwards", spoil(built.JSON())})
		}
		return out
	}
	// one short ID, then as many 44-character IDs as fit, then the first ID lengthened by the remainder
	first := 10
	auth := []string{fakeID(0, first)}
	base := measure(make1(auth))
	per := measure(make1(append(append([]string{}, auth...), fakeID(1, 44)))) - base
	rest := r.Size - base
	if rest < 0 || per <= 0 {
		fatalf("size scenario: cannot reach %d bytes (base %d, per entry %d)", r.Size, base, per)
	}
	for i := 1; i <= rest/per; i++ {
		auth = append(auth, fakeID(i, 44))
	}
	auth[0] = fakeID(0, first+rest%per)
	in := make1(auth)
	if measure(in) != r.Size {
		fatalf("concretiser: %s JSON has %d bytes, wanted %d", r.SizeOf, measure(in), r.Size)
	}
	if r.Hash == "mismatch_same" && survivingLen(v, in) != len(in) {
		fatalf("concretiser: mismatch_same event of version %s changes under redaction", r.Ver)
	}
	if r.Hash == "mismatch" && survivingLen(v, in) >= len(in) {
		fatalf("concretiser: mismatch event of version %s does not shrink under redaction", r.Ver)
	}
	list := "auth_events"
	if r.Place == "prev_events" {
		list = "prev_events"
	}
	return []input{{fmt.Sprintf("hand-signed JSON, hash %s, %d %s", r.Hash, len(auth), list), in}}
}

// relevantClass names the version class only where it can matter: the room ID of versions with domainless
// room IDs, the sender of the pseudo-ID version.
func relevantClass(r limitsRec) string {
	if r.VClass == "domainless" && r.Fields["room_id"].Cps > 0 {
		return "domainless"
	}
	if r.VClass == "pseudoid" && r.Fields["sender"].Cps > 0 {
		return "pseudoid"
	}
	return "any"
}

func limitsReplay(raw json.RawMessage) hx.Result {
	var r limitsRec
	if err := json.Unmarshal(raw, &r); err != nil {
		fatalf("bad record: %v", err)
	}
	v := mustVersion(r.Ver)
	f := evFields{
		Type:   fieldValue("type", r.Fields["type"], "c17.test"),
		Sender: fieldValue("sender", r.Fields["sender"], "@alice:hs1"),
		RoomID: fieldValue("room_id", r.Fields["room_id"], naturalRoomID(r.Ver)),
	}
	if sk := r.Fields["state_key"]; sk.Cps > 0 {
		f.StateKey = strp(fieldValue("state_key", sk, ""))
	}
	if r.Create {
		// a create event that carries a room_id member (tolerated where room IDs are domainless)
		if !specDomainless(r.Ver) || r.Path == "build" {
			fatalf("create-with-room_id scenario for version %s path %s", r.Ver, r.Path)
		}
		f.Type, f.StateKey, f.Sender = "m.room.create", strp(""), creator
	}
	if r.Fam == "place" {
		return placeReplay(r, v, f)
	}
	body := func(n int) interface{} { return map[string]string{"body": strings.Repeat("x", n)} }
	f.Content = body(0)

	// the event as EventBuilder.Build makes it (nil when Build does not hand it out), padded to the wanted size
	builtFor := func(pad int) (gmsl.PDU, error) {
		g := f
		g.Content = body(pad)
		return build(v, g)
	}
	built, berr := builtFor(0)
	if r.Size > 0 {
		// the JSON grows by one byte per byte of padding and per byte of room ID: measure a twin whose room ID
		// Build accepts (Build hands nothing out when the room ID is over a limit)
		twin := f
		twin.RoomID = naturalRoomID(r.Ver)
		twin.Content = body(0)
		tb, _ := build(v, twin)
		if tb == nil {
			fatalf("size scenario: Build returned no event for the twin")
		}
		pad := r.Size - (len(tb.JSON()) + len(f.RoomID) - len(twin.RoomID))
		if pad < 0 {
			fatalf("natural event already larger than %d", r.Size)
		}
		built, berr = builtFor(pad)
		if built != nil && len(built.JSON()) != r.Size {
			fatalf("concretiser: cannot pad the built event to %d bytes (got %d)", r.Size, len(built.JSON()))
		}
	}
	// the same event hashed and signed by hand
	handFor := func(p int) []byte {
		g := f
		g.Content = body(p)
		return handSigned(r.Ver, v, g)
	}
	hand := handFor(0)
	if r.Size > 0 {
		hand = handFor(r.Size - len(hand))
		if len(hand) != r.Size {
			fatalf("concretiser: cannot pad the hand-signed event to %d bytes (got %d)", r.Size, len(hand))
		}
	}

	nt := fmt.Sprintf("%s|%s|%s|%s|%s", r.Fam, r.Path, r.VClass, r.Desc, r.Want)
	fail := func(got string, err error, via string) hx.Result {
		return hx.Result{OK: false, NT: nt, Want: r.Want, Got: got,
			Key: fmt.Sprintf("C17/limits/%s/%s/model=%s,code=%s", r.Desc, relevantClass(r), r.Want, got),
			What: fmt.Sprintf("room version %s, %s (%s): %s; the property says %q, the library reports %q (err=%.160v)",
				r.Ver, r.Path, via, r.Desc, r.Want, got, err)}
	}
	switch r.Path {
	case "build":
		if got := classify(berr); got != r.Want {
			return fail(got, berr, "EventBuilder.Build")
		}
		if res := checkHanded(r, nt, r.Ret, built, f, "EventBuilder.Build"); res != nil {
			return *res
		}
	case "receipt":
		var inputs []input
		switch r.Hash {
		case "match":
			inputs = append(inputs, input{"hand-signed JSON", hand})
			if built != nil {
				inputs = append(inputs, input{"JSON made by EventBuilder.Build", built.JSON()})
			}
		case "mismatch", "mismatch_same":
			inputs = mismatchInputs(r, v, f, built)
		default:
			fatalf("unknown hash %q", r.Hash)
		}
		for _, in := range inputs {
			ev, err := v.NewEventFromUntrustedJSON(in.json)
			if got := classify(err); got != r.Want {
				return fail(got, err, "NewEventFromUntrustedJSON of "+in.via)
			}
			if res := checkHanded(r, nt, r.Ret, ev, f, "NewEventFromUntrustedJSON of "+in.via); res != nil {
				return *res
			}
			if res := checkKept(r, nt, r.Ret, in.json, f, in.via); res != nil {
				return *res
			}
			if ev != nil && ev.Redacted() && r.Hash == "match" && strings.HasPrefix(in.via, "JSON made by EventBuilder.Build") {
				// not a fault of the concretiser: the library does not accept its own product as it is
				// ("events built for a room version have that version's format")
				return hx.Result{OK: false, NT: nt, Want: "accepted as built", Got: "redacted",
					Key: "C17/limits/built-event-on-receipt/ver=" + r.Ver + "/model=unredacted,code=redacted",
					What: fmt.Sprintf("room version %s: the event made by EventBuilder.Build is redacted by NewEventFromUntrustedJSON "+
						"(its content hash does not cover the JSON it was built with): %s", r.Ver, r.Desc)}
			}
			if ev != nil && ev.Redacted() != (r.Hash != "match") {
				fatalf("concretiser: %s of version %s, hash=%s: the library says redacted=%v", in.via, r.Ver, r.Hash, ev.Redacted())
			}
		}
	case "checkfields":
		src := hand
		if built != nil {
			src = built.JSON()
		}
		ev, err := v.NewEventFromTrustedJSON(src, false)
		if err == nil {
			err = gmsl.CheckFields(ev)
		}
		if got := classify(err); got != r.Want {
			return fail(got, err, "NewEventFromTrustedJSON + CheckFields")
		}
	default:
		fatalf("unknown path %q", r.Path)
	}
	return hx.Result{OK: true, NT: nt}
}
