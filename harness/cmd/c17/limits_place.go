package main

// Family "place" of Limits.tla: the same total JSON size with the bulk of the bytes in different places
// (content, unsigned, both, type / state key at their limits, prev_events, auth_events, the signatures of
// many servers), on receipt, on build and in CheckFields (event parsed from trusted JSON, from headered
// JSON, returned by SetUnsigned, returned by Sign).  Every event is made twice, by EventBuilder.Build and by
// the independent hash-and-sign, to exactly the bytes the model names (r.Size in total, r.Proper without
// the unsigned member).

import (
	"encoding/json"
	"fmt"
	"strings"

	gmsl "github.com/matrix-org/gomatrixserverlib"
	"verifharness/hx"
)

const (
	maxEventBytes = 65536 // the limit of the property statement
	signerLen     = 200
)

func padBody(n int) interface{} { return map[string]string{"body": strings.Repeat("x", n)} }

func refIDs(n int) []string {
	out := make([]string, 0, n)
	for i := 0; i < n; i++ {
		out = append(out, fakeID(i, 44))
	}
	return out
}

func signerName(i, length int) string {
	s := fmt.Sprintf("s%04d.", i)
	return s + strings.Repeat("a", length-len(s))
}

func signerNames(n int) []string {
	out := make([]string, 0, n)
	for i := 0; i < n; i++ {
		out = append(out, signerName(i, signerLen))
	}
	return out
}

// placeHasUnits: the bulk comes in whole entries (event IDs, signatures); the remainder is content padding.
func placeHasUnits(place string) bool {
	return place == "prev_events" || place == "auth_events" || place == "signatures"
}

// placed is the event proper (no unsigned member) with `units` bulk entries and `pad` bytes of content padding.
func placed(place string, f evFields, units, pad int) evFields {
	g := f
	g.Content = padBody(pad)
	switch place {
	case "prev_events":
		g.Prev = refIDs(units)
	case "auth_events":
		g.Auth = refIDs(units)
	case "signatures":
		g.Signers = signerNames(units)
	case "content", "unsigned", "split", "mixed", "fields":
		// the bulk of the event proper is content padding ("fields": next to a type and a state key at 255)
	default:
		fatalf("unknown placement %q", place)
	}
	return g
}

// fit finds (units, pad) such that measure(units, pad) == target, given that every entry adds the same number
// of bytes and every byte of padding one byte.
func fit(target int, hasUnits bool, measure func(units, pad int) int) (int, int) {
	units := 0
	base := measure(0, 0)
	if hasUnits {
		one := measure(1, 0)
		per := measure(2, 0) - one
		if per <= 0 || one > target {
			fatalf("size scenario: cannot reach %d bytes (one entry %d, per entry %d)", target, one, per)
		}
		units = 1 + (target-one)/per
		base = one + (units-1)*per
	}
	if target < base {
		fatalf("size scenario: the natural event has %d bytes, more than the %d wanted", base, target)
	}
	return units, target - base
}

// unsignedOf is an unsigned value whose member ("unsigned":{"pad":"uu..."} and a comma) takes n bytes.
func unsignedOf(n int) (map[string]string, json.RawMessage) {
	const frame = len(`"unsigned":{"pad":""},`)
	if n < frame {
		fatalf("an unsigned member of %d bytes cannot be spelled", n)
	}
	val := map[string]string{"pad": strings.Repeat("u", n-frame)}
	raw, _ := json.Marshal(val)
	return val, raw
}

func placeReplay(r limitsRec, v gmsl.IRoomVersion, f evFields) hx.Result {
	if r.Place == "signatures" && r.Path == "build" {
		fatalf("EventBuilder.Build signs once: no scenario with many signatures on build")
	}
	nt := fmt.Sprintf("%s|%s|%s|%s|%s", r.Fam, r.Path, r.VClass, r.Desc, r.Want)
	disagree := func(want, got string, err error, via string) hx.Result {
		return hx.Result{OK: false, NT: nt, Want: want, Got: got,
			Key: fmt.Sprintf("C17/limits/%s/%s/model=%s,code=%s", r.Desc, relevantClass(r), want, got),
			What: fmt.Sprintf("room version %s, %s (%s): an event of %d bytes of JSON (%d without its unsigned member), bulk in %s [%s]: the property says %q, the library reports %q (err=%.160v)",
				r.Ver, r.Path, via, r.Size, r.Proper, r.Place, r.Desc, want, got, err)}
	}
	judge := func(err error, via string) *hx.Result {
		if got := classify(err); got != r.Want && got != r.Alt {
			res := disagree(r.Want, got, err, via)
			return &res
		}
		return nil
	}

	var unsVal map[string]string
	var unsRaw json.RawMessage
	if r.Size > r.Proper {
		unsVal, unsRaw = unsignedOf(r.Size - r.Proper)
	}
	units := placeHasUnits(r.Place)

	// the event proper and the whole event, hashed and signed by hand
	hu, hp := fit(r.Proper, units, func(u, p int) int { return len(handSigned(r.Ver, v, placed(r.Place, f, u, p))) })
	hf := placed(r.Place, f, hu, hp)
	handProper := handSigned(r.Ver, v, hf)
	hf.Unsigned = unsRaw
	hand := handSigned(r.Ver, v, hf)
	if len(handProper) != r.Proper || len(hand) != r.Size {
		fatalf("concretiser: hand-signed event of %d / %d bytes, the model says %d / %d", len(handProper), len(hand), r.Proper, r.Size)
	}
	// the same as EventBuilder.Build makes them (Build hands the event out also when it reports it too large)
	var builtProper, built gmsl.PDU
	var berr error
	var bf evFields
	if r.Place != "signatures" {
		bu, bp := fit(r.Proper, units, func(u, p int) int {
			ev, _ := build(v, placed(r.Place, f, u, p))
			if ev == nil {
				fatalf("size scenario: Build returned no event")
			}
			return len(ev.JSON())
		})
		bf = placed(r.Place, f, bu, bp)
		builtProper, _ = build(v, bf)
		bf.Unsigned = unsRaw
		built, berr = build(v, bf)
		if builtProper == nil || built == nil || len(builtProper.JSON()) != r.Proper || len(built.JSON()) != r.Size {
			fatalf("concretiser: cannot make Build produce %d / %d bytes", r.Proper, r.Size)
		}
	}

	switch r.Path {
	case "build":
		if res := judge(berr, "EventBuilder.Build"); res != nil {
			return *res
		}
		if res := checkHanded(r, nt, retFor(r, classify(berr)), built, bf, "EventBuilder.Build"); res != nil {
			return *res
		}
		if unsVal != nil {
			// the unsigned value given through EventBuilder.SetUnsigned
			g := bf
			g.Unsigned = nil
			eb := builder(v, g)
			if err := eb.SetUnsigned(unsVal); err != nil {
				fatalf("EventBuilder.SetUnsigned: %v", err)
			}
			ev, err := eb.Build(evNow, origin, keyID, testKey)
			if ev == nil || len(ev.JSON()) != r.Size {
				fatalf("concretiser: EventBuilder.SetUnsigned + Build does not produce %d bytes", r.Size)
			}
			if res := judge(err, "EventBuilder.SetUnsigned + Build"); res != nil {
				return *res
			}
		}
	case "receipt":
		inputs := []input{{"hand-signed JSON", hand}}
		if built != nil {
			inputs = append(inputs, input{"JSON made by EventBuilder.Build", built.JSON()})
		}
		if r.Hash != "match" {
			if r.Place != "prev_events" || r.Size != r.Proper {
				fatalf("no mismatching content hash for placement %s", r.Place)
			}
			inputs = mismatchInputs(r, v, f, nil)
		}
		for _, in := range inputs {
			ev, err := v.NewEventFromUntrustedJSON(in.json)
			via := "NewEventFromUntrustedJSON of " + in.via
			if res := judge(err, via); res != nil {
				return *res
			}
			if res := checkHanded(r, nt, retFor(r, classify(err)), ev, f, via); res != nil {
				return *res
			}
			if res := checkKept(r, nt, retFor(r, classify(err)), in.json, f, in.via); res != nil {
				return *res
			}
			if ev == nil || classify(err) == "refused" {
				continue
			}
			// whichever way the received JSON is measured: what receipt lets through is an event, and its JSON
			// is within the limit
			if n := len(ev.JSON()); n > maxEventBytes {
				return hx.Result{OK: false, NT: nt, Want: "kept<=65536", Got: "kept>65536",
					Key: fmt.Sprintf("C17/limits/%s/%s/model=kept<=65536,code=kept>65536", r.Desc, relevantClass(r)),
					What: fmt.Sprintf("room version %s, receipt (%s): %s; the event that receipt lets through has %d bytes of JSON", r.Ver, via, r.Desc, n)}
			}
			if r.Hash != "match" {
				if !ev.Redacted() {
					fatalf("concretiser: %s of version %s, hash=%s: the library says the content hash matches", in.via, r.Ver, r.Hash)
				}
				continue
			}
			if ev.Redacted() {
				if strings.HasPrefix(in.via, "JSON made by EventBuilder.Build") {
					return hx.Result{OK: false, NT: nt, Want: "accepted as built", Got: "redacted",
						Key: "C17/limits/built-event-on-receipt/ver=" + r.Ver + "/model=unredacted,code=redacted",
						What: fmt.Sprintf("room version %s: the event made by EventBuilder.Build is redacted by NewEventFromUntrustedJSON "+
							"(its content hash does not cover the JSON it was built with): %s", r.Ver, r.Desc)}
				}
				fatalf("concretiser: %s of version %s: the library says the content hash does not match", in.via, r.Ver)
			}
		}
	case "checkfields":
		src, properSrc, made := hand, handProper, "hand-signed JSON"
		if built != nil {
			src, properSrc, made = built.JSON(), builtProper.JSON(), "JSON made by EventBuilder.Build"
		}
		trusted := func(b []byte) gmsl.PDU {
			ev, err := v.NewEventFromTrustedJSON(b, false)
			if err != nil {
				fatalf("NewEventFromTrustedJSON of a generated event: %v", err)
			}
			return ev
		}
		// CheckFields before the step that adds the bytes
		before := func(base gmsl.PDU, via string) *hx.Result {
			if len(base.JSON()) != r.Base {
				fatalf("concretiser: the event before %s has %d bytes, the model says %d", via, len(base.JSON()), r.Base)
			}
			if got := classify(gmsl.CheckFields(base)); got != r.Pre {
				res := disagree(r.Pre, got, nil, "CheckFields before "+via)
				return &res
			}
			return nil
		}
		var ev gmsl.PDU
		via := ""
		switch r.Via {
		case "trusted":
			ev, via = trusted(src), "NewEventFromTrustedJSON of "+made
		case "headered":
			h, err := trusted(src).ToHeaderedJSON()
			if err != nil {
				fatalf("ToHeaderedJSON: %v", err)
			}
			if ev, err = gmsl.NewEventFromHeaderedJSON(h, false); err != nil {
				fatalf("NewEventFromHeaderedJSON of ToHeaderedJSON: %v", err)
			}
			via = "NewEventFromHeaderedJSON of the headered form of " + made
		case "setunsigned":
			base := trusted(properSrc)
			if res := before(base, "SetUnsigned"); res != nil {
				return *res
			}
			var err error
			if ev, err = base.SetUnsigned(unsVal); err != nil {
				fatalf("SetUnsigned: %v", err)
			}
			via = "SetUnsigned on NewEventFromTrustedJSON of " + made
		case "sign":
			// an event of r.Base bytes made by Build, to which further servers add their signatures
			_, pad := fit(r.Base, false, func(u, p int) int {
				e, _ := build(v, placed("content", f, 0, p))
				if e == nil {
					fatalf("size scenario: Build returned no event")
				}
				return len(e.JSON())
			})
			base, _ := build(v, placed("content", f, 0, pad))
			if res := before(base, "Sign"); res != nil {
				return *res
			}
			// one more entry "name":{"ed25519:c17":"..."}, takes c bytes and the name
			c := len(base.Sign(signerName(0, signerLen), keyID, testKey).JSON()) - len(base.JSON()) - signerLen
			rest, per := r.Size-r.Base, c+signerLen
			k, rem := rest/per, rest%per
			if c <= 0 || k < 1 {
				fatalf("concretiser: cannot add %d bytes of signatures (%d per entry)", rest, per)
			}
			lens := make([]int, k)
			for i := range lens {
				lens[i] = signerLen
			}
			if rem >= c+8 {
				lens = append(lens, rem-c)
			} else {
				lens[k-1] += rem
			}
			ev = base
			for i, l := range lens {
				ev = ev.Sign(signerName(i, l), keyID, testKey)
			}
			via = fmt.Sprintf("EventBuilder.Build + Sign by %d further servers", len(lens))
		default:
			fatalf("unknown via %q", r.Via)
		}
		if n := len(ev.JSON()); n != r.Size {
			fatalf("concretiser: %s has %d bytes of JSON, the model says %d", via, n, r.Size)
		}
		if res := judge(gmsl.CheckFields(ev), via+" + CheckFields"); res != nil {
			return *res
		}
	default:
		fatalf("unknown path %q", r.Path)
	}
	return hx.Result{OK: true, NT: nt}
}
