package main

// Real, hashed and signed events in every room version: through EventBuilder.Build where it can
// produce them, and through an independent hash-and-sign (content hash per the specification,
// signature over the version's redaction) where Build refuses to hand the JSON out.

import (
	"crypto/ed25519"
	"crypto/sha256"
	"encoding/base64"
	"encoding/json"
	"time"

	gmsl "github.com/matrix-org/gomatrixserverlib"
	"github.com/matrix-org/gomatrixserverlib/spec"
)

var (
	testKey = ed25519.NewKeyFromSeed([]byte("c17-harness-seed-0123456789abcde"))
	keyID   = gmsl.KeyID("ed25519:c17")
	origin  = spec.ServerName("hs1")
	evNow   = time.Unix(1700000000, 0)
)

// the specification's view of the versions (never the library's getters)
var allVersions = []string{"1", "2", "3", "4", "5", "6", "7", "8", "9", "10", "11", "12",
	"org.matrix.msc3667", "org.matrix.msc3787", "org.matrix.msc4014", "org.matrix.hydra.11"}

func specDomainless(ver string) bool { return ver == "12" || ver == "org.matrix.hydra.11" }
func specFormatV1(ver string) bool   { return ver == "1" || ver == "2" }

const room43 = "!AAAAAAAAAAAAAAAAAAAAAAAAAAAAAAAAAAAAAAAAAAA" // "!" + 43 URL-safe characters

func naturalRoomID(ver string) string {
	if specDomainless(ver) {
		return room43
	}
	return "!room:hs1"
}

func mustVersion(ver string) gmsl.IRoomVersion {
	v, err := gmsl.GetRoomVersion(gmsl.RoomVersion(ver))
	if err != nil {
		fatalf("room version %q is not registered: %v", ver, err)
	}
	return v
}

type evFields struct {
	Type     string
	StateKey *string
	Sender   string
	RoomID   string
	Content  interface{}
	Prev     []string
	Auth     []string
	Depth    int64
	Redacts  string
	NoOrigin bool // hand-signed only: leave the (optional) origin key out
	// the "unsigned" member (nil: none); it is neither hashed nor signed
	Unsigned json.RawMessage
	// hand-signed only: further servers whose signatures the event carries besides the origin's
	Signers []string
}

// refList spells a list of event IDs in the event format of the version (reference tuples / plain IDs).
func refList(ver string, ids []string) interface{} {
	if !specFormatV1(ver) {
		if ids == nil {
			return []string{}
		}
		return ids
	}
	out := make([]interface{}, 0, len(ids))
	for _, id := range ids {
		out = append(out, []interface{}{id, map[string]string{"sha256": ""}})
	}
	return out
}

// withKey returns the canonical JSON of the event with one top-level key replaced.
func withKey(eventJSON []byte, key string, value interface{}) []byte {
	var m map[string]json.RawMessage
	if err := json.Unmarshal(eventJSON, &m); err != nil {
		fatalf("withKey: %v", err)
	}
	v, err := json.Marshal(value)
	if err != nil {
		fatalf("withKey: %v", err)
	}
	m[key] = v
	b, _ := json.Marshal(m)
	c, err := gmsl.CanonicalJSON(b)
	if err != nil {
		fatalf("withKey: canonical JSON: %v", err)
	}
	return c
}

func strp(s string) *string { return &s }

func contentJSON(c interface{}) []byte {
	if c == nil {
		return []byte(`{}`)
	}
	if raw, ok := c.(json.RawMessage); ok {
		return raw
	}
	b, err := json.Marshal(c)
	if err != nil {
		fatalf("content: %v", err)
	}
	return b
}

// builder fills an EventBuilder of the version from the fields.
func builder(v gmsl.IRoomVersion, f evFields) *gmsl.EventBuilder {
	prev, auth := f.Prev, f.Auth
	if prev == nil {
		prev = []string{}
	}
	if auth == nil {
		auth = []string{}
	}
	depth := f.Depth
	if depth == 0 {
		depth = 1
	}
	return v.NewEventBuilderFromProtoEvent(&gmsl.ProtoEvent{
		SenderID: f.Sender, RoomID: f.RoomID, Type: f.Type, StateKey: f.StateKey,
		PrevEvents: prev, AuthEvents: auth, Depth: depth, Redacts: f.Redacts,
		Content: contentJSON(f.Content), Unsigned: spec.RawJSON(f.Unsigned),
	})
}

// build runs EventBuilder.Build with a real ed25519 key.
func build(v gmsl.IRoomVersion, f evFields) (gmsl.PDU, error) {
	return builder(v, f).Build(evNow, origin, keyID, testKey)
}

// contentHash is the specification's content hash: SHA-256 of the canonical JSON of the event
// without its "unsigned", "signatures" and "hashes" keys, as unpadded base64.
func contentHash(eventJSON []byte) string {
	var m map[string]json.RawMessage
	if err := json.Unmarshal(eventJSON, &m); err != nil {
		fatalf("contentHash: %v", err)
	}
	delete(m, "unsigned")
	delete(m, "signatures")
	delete(m, "hashes")
	b, _ := json.Marshal(m)
	c, err := gmsl.CanonicalJSON(b)
	if err != nil {
		fatalf("contentHash: canonical JSON: %v", err)
	}
	sum := sha256.Sum256(c)
	return base64.RawStdEncoding.EncodeToString(sum[:])
}

// handSigned produces the canonical, hashed and signed JSON of an event without EventBuilder.
func handSigned(ver string, v gmsl.IRoomVersion, f evFields) []byte {
	m := map[string]interface{}{
		"type": f.Type, "sender": f.Sender, "content": json.RawMessage(contentJSON(f.Content)),
		"depth": 1, "origin_server_ts": evNow.UnixMilli(),
		"prev_events": refList(ver, f.Prev), "auth_events": refList(ver, f.Auth),
	}
	if !f.NoOrigin {
		m["origin"] = string(origin)
	}
	if f.RoomID != "" {
		m["room_id"] = f.RoomID
	}
	if f.StateKey != nil {
		m["state_key"] = *f.StateKey
	}
	if specFormatV1(ver) {
		m["event_id"] = "$abcdefghijklmnop:hs1"
	}
	b, err := json.Marshal(m)
	if err != nil {
		fatalf("handSigned: %v", err)
	}
	m["hashes"] = map[string]string{"sha256": contentHash(b)}
	b, _ = json.Marshal(m)
	red, err := v.RedactEventJSON(b)
	if err != nil {
		fatalf("handSigned: redact: %v", err)
	}
	signed, err := gmsl.SignJSON(string(origin), keyID, testKey, red)
	if err != nil {
		fatalf("handSigned: sign: %v", err)
	}
	var sm map[string]json.RawMessage
	if err := json.Unmarshal(signed, &sm); err != nil {
		fatalf("handSigned: %v", err)
	}
	m["signatures"] = sm["signatures"]
	if len(f.Signers) > 0 {
		// every server signs the same bytes (the redacted event without signatures and unsigned) and the
		// harness holds one key: the further signatures are the origin's, under the other names
		var sigs map[string]map[string]string
		if err := json.Unmarshal(sm["signatures"], &sigs); err != nil {
			fatalf("handSigned: signatures: %v", err)
		}
		for _, name := range f.Signers {
			sigs[name] = sigs[string(origin)]
		}
		m["signatures"] = sigs
	}
	if f.Unsigned != nil {
		m["unsigned"] = f.Unsigned
	}
	b, _ = json.Marshal(m)
	c, err := gmsl.CanonicalJSON(b)
	if err != nil {
		fatalf("handSigned: canonical JSON: %v", err)
	}
	return c
}

func identityQuerier(roomID spec.RoomID, senderID spec.SenderID) (*spec.UserID, error) {
	return spec.NewUserID(string(senderID), true)
}
