package main

// What the operations hand on besides the error (history variable `ret` of Limits.tla): the event returned
// next to the judgement by NewEventFromUntrustedJSON / EventBuilder.Build, and what
// EventJSONs.UntrustedEvents keeps; family "batch*": a list of received events through UntrustedEvents.

import (
	"encoding/json"
	"fmt"
	"reflect"
	"strings"

	gmsl "github.com/matrix-org/gomatrixserverlib"
	"github.com/matrix-org/gomatrixserverlib/spec"
	"verifharness/hx"
)

type retRec struct {
	PDU  string `json:"pdu"`  // "event" | "free" | "n/a"
	Kept string `json:"kept"` // "yes" | "no" | "free" | "n/a"
}

// isNilPDU: a nil interface, or a typed nil pointer inside the interface.
func isNilPDU(ev gmsl.PDU) bool {
	if ev == nil {
		return true
	}
	rv := reflect.ValueOf(ev)
	return rv.Kind() == reflect.Ptr && rv.IsNil()
}

// intact compares the fields of an event that was handed on with what went in ("" = as sent).
func intact(ev gmsl.PDU, ver string, f evFields, create bool) string {
	if string(ev.Version()) != ver {
		return fmt.Sprintf("version %q, not %q", ev.Version(), ver)
	}
	if ev.Type() != f.Type {
		return "another type"
	}
	if (ev.StateKey() == nil) != (f.StateKey == nil) || (f.StateKey != nil && *ev.StateKey() != *f.StateKey) {
		return "another state key"
	}
	if string(ev.SenderID()) != f.Sender {
		return "another sender"
	}
	if !create && ev.RoomID().String() != f.RoomID {
		return "another room ID"
	}
	if len(ev.JSON()) == 0 {
		return "no JSON"
	}
	return ""
}

// retFor picks the model's answer for the outcome the library reported (want, or the admitted alternative).
func retFor(r limitsRec, got string) retRec {
	if got != r.Want && got == r.Alt {
		return r.RetAlt
	}
	return r.Ret
}

// retFail names a disagreement about what is handed on after the operation, the judgement and the fields that are
// over the byte limit only (not after the hash / size / placement details of the scenario: the rule does not read them).
func retFail(r limitsRec, nt, what, want, got, via string) *hx.Result {
	var soft []string
	for _, f := range []string{"type", "state_key", "sender", "room_id"} {
		if sh := r.Fields[f]; sh.Bytes > 255 && sh.Cps <= 255 {
			soft = append(soft, f)
		}
	}
	over := "none"
	if len(soft) > 0 {
		over = strings.Join(soft, "+")
	}
	return &hx.Result{OK: false, NT: nt, Want: want, Got: got,
		Key: fmt.Sprintf("C17/limits/handed-on/%s/judged=%s/bytes-only=%s/%s:model=%s,code=%s", r.Path, r.Want, over, what, want, got),
		What: fmt.Sprintf("room version %s, %s (%s): %s; reported %q - %s: the property says %s, the library gives %s",
			r.Ver, r.Path, via, r.Desc, r.Want, what, want, got)}
}

// checkHanded: the event that comes back with the judgement (receipt and build).
func checkHanded(r limitsRec, nt string, exp retRec, ev gmsl.PDU, f evFields, via string) *hx.Result {
	if exp.PDU != "event" {
		return nil
	}
	if isNilPDU(ev) {
		return retFail(r, nt, "handed", "event", "nothing", via)
	}
	if d := intact(ev, r.Ver, f, r.Create); d != "" {
		return retFail(r, nt, "handed", "event", "altered("+d+")", via)
	}
	return nil
}

// checkKept: the same JSON through the list operation.
func checkKept(r limitsRec, nt string, exp retRec, in []byte, f evFields, via string) *hx.Result {
	if exp.Kept != "yes" && exp.Kept != "no" {
		return nil
	}
	list := gmsl.EventJSONs{spec.RawJSON(in)}.UntrustedEvents(gmsl.RoomVersion(r.Ver))
	via = "EventJSONs.UntrustedEvents of " + via
	for _, e := range list {
		if isNilPDU(e) {
			return retFail(r, nt, "kept", exp.Kept, "nil-entry", via)
		}
	}
	switch {
	case exp.Kept == "yes" && len(list) != 1:
		return retFail(r, nt, "kept", "yes", fmt.Sprintf("%d-events", len(list)), via)
	case exp.Kept == "no" && len(list) != 0:
		return retFail(r, nt, "kept", "no", fmt.Sprintf("%d-events", len(list)), via)
	}
	if exp.Kept == "yes" {
		if d := intact(list[0], r.Ver, f, r.Create); d != "" {
			return retFail(r, nt, "kept", "yes", "altered("+d+")", via)
		}
	}
	return nil
}

// ---- family "batch*": a list of received events --------------------------------------------------------

type batchItem struct {
	Kind   string              `json:"kind"`
	Field  string              `json:"field"`
	Want   string              `json:"want"`
	Fields map[string]shapeRec `json:"fields"`
}

type batchRec struct {
	Fam    string      `json:"fam"`
	Ver    string      `json:"ver"`
	VClass string      `json:"vclass"`
	Items  []batchItem `json:"items"`
	Kept   []int       `json:"kept"`
	Desc   string      `json:"desc"`
}

func batchReplay(raw json.RawMessage) hx.Result {
	var r batchRec
	if err := json.Unmarshal(raw, &r); err != nil {
		fatalf("bad record: %v", err)
	}
	v := mustVersion(r.Ver)
	var list gmsl.EventJSONs
	var sent []evFields
	for i, it := range r.Items {
		f := evFields{
			Type:   fieldValue("type", it.Fields["type"], "c17.test"),
			Sender: fieldValue("sender", it.Fields["sender"], "@alice:hs1"),
			RoomID: fieldValue("room_id", it.Fields["room_id"], naturalRoomID(r.Ver)),
			// every item is told apart by its content and its depth position in the list
			Content: map[string]int{"item": i + 1},
		}
		if sk := it.Fields["state_key"]; sk.Cps > 0 {
			f.StateKey = strp(fieldValue("state_key", sk, ""))
		}
		sent = append(sent, f)
		var js []byte
		switch {
		case it.Kind == "junk" && i%2 == 0:
			js = []byte(`{"not":"an event"}`)
		case it.Kind == "junk":
			js = []byte(`[]`)
		case i%2 == 1:
			// as EventBuilder.Build makes it, where Build hands it out
			if b, _ := build(v, f); b != nil {
				js = b.JSON()
			} else {
				js = handSigned(r.Ver, v, f)
			}
		default:
			js = handSigned(r.Ver, v, f)
		}
		// each item on its own first: the list must agree with the constructor
		_, err := v.NewEventFromUntrustedJSON(js)
		got := classify(err)
		if it.Kind == "junk" {
			if err == nil {
				fatalf("concretiser: %s is accepted as an event in version %s", js, r.Ver)
			}
		} else if got != it.Want {
			// the single-event families report this under their own keys
			return hx.Result{OK: true, NT: "batch|skipped:item-judged-differently"}
		}
		list = append(list, spec.RawJSON(js))
	}
	out := list.UntrustedEvents(gmsl.RoomVersion(r.Ver))
	nt := fmt.Sprintf("batch|%s|%s|kept=%d/%d", r.VClass, r.Desc, len(r.Kept), len(r.Items))
	// the disagreement is named after the first item that is treated differently (kept / dropped), not after the
	// whole list
	fail := func(item, want, got, what string) hx.Result {
		return hx.Result{OK: false, NT: nt, Want: want, Got: got,
			Key: fmt.Sprintf("C17/limits/list/item=%s/model=%s,code=%s", item, want, got),
			What: fmt.Sprintf("room version %s, EventJSONs.UntrustedEvents of %d received events (%s): the accepted and the persistable ones are items %v; %s",
				r.Ver, len(r.Items), r.Desc, r.Kept, what)}
	}
	itemName := func(i int) string {
		it := r.Items[i-1]
		if it.Field != "none" {
			return it.Kind + ":" + it.Field
		}
		return it.Kind
	}
	var got []int
	for k, e := range out {
		if isNilPDU(e) {
			return fail("any", "events", "nil-entry", fmt.Sprintf("entry %d of the result is nil", k))
		}
		var c map[string]int
		if err := json.Unmarshal(e.Content(), &c); err != nil || c["item"] < 1 || c["item"] > len(r.Items) {
			return fail("any", "events-received", "other-event", fmt.Sprintf("entry %d of the result carries content %s, which no item has", k, e.Content()))
		}
		got = append(got, c["item"])
	}
	in := func(l []int, x int) bool {
		for _, y := range l {
			if y == x {
				return true
			}
		}
		return false
	}
	for i := 1; i <= len(r.Items); i++ {
		switch w, g := in(r.Kept, i), in(got, i); {
		case w && !g:
			return fail(itemName(i), "kept", "dropped", fmt.Sprintf("the library returns items %v: item %d is missing", got, i))
		case !w && g:
			return fail(itemName(i), "dropped", "kept", fmt.Sprintf("the library returns items %v: item %d must not be there", got, i))
		}
	}
	if fmt.Sprint(got) != fmt.Sprint(r.Kept) {
		return fail("any", "in-order", "reordered-or-repeated", fmt.Sprintf("the library returns items %v", got))
	}
	for k, e := range out {
		if d := intact(e, r.Ver, sent[got[k]-1], false); d != "" {
			return fail(itemName(got[k]), "kept", "altered", fmt.Sprintf("entry %d of the result is item %d with %s", k, got[k], d))
		}
	}
	return hx.Result{OK: true, NT: nt}
}
