package main

// Replays Ident.tla strings through spec.NewUserID (strict / historical), spec.NewRoomID,
// spec.ParseAndValidateServerName and gomatrixserverlib.SplitID.

import (
	"encoding/json"
	"fmt"
	"strconv"
	"strings"

	gmsl "github.com/matrix-org/gomatrixserverlib"
	"github.com/matrix-org/gomatrixserverlib/spec"
	"verifharness/hx"
)

type identRec struct {
	Fam    string   `json:"fam"`
	S      []string `json:"s"`
	Padlen int      `json:"padlen"`
	Bytes  int      `json:"bytes"`
	US     string   `json:"us"`
	UH     string   `json:"uh"`
	RM     string   `json:"rm"`
	SN     string   `json:"sn"`
	Cut    int      `json:"cut"`
	PCut   int      `json:"pcut"`
	Port   int      `json:"port"`
	KU     string   `json:"ku"`
	KH     string   `json:"kh"`
	KR     string   `json:"kr"`
	KS     string   `json:"ks"`
}

func init() {
	hx.Register("ident", "replay Ident.tla strings (-mode us|uh|rm|sn|split)", func(a *hx.Args) error {
		mode := a.Mode
		switch mode {
		case "us", "uh", "uhs", "ush", "rm", "sn", "split":
		default:
			return fmt.Errorf("ident: -mode must be one of us uh rm sn split")
		}
		return hx.ReplayAll(a, func(i int, raw json.RawMessage) hx.Result {
			switch mode {
			case "uhs": // both user-ID parses of the same string in one process: historical first, strict after it
				if res := identReplay("uh", raw); !res.OK {
					return res
				}
				res := identReplay("us", raw)
				return afterCall(res, "historical-then-strict")
			case "ush":
				if res := identReplay("us", raw); !res.OK {
					return res
				}
				res := identReplay("uh", raw)
				return afterCall(res, "strict-then-historical")
			}
			return identReplay(mode, raw)
		})
	})
}

// afterCall marks the result of the second call of a two-call sequence: the order is part of the scenario.
func afterCall(res hx.Result, order string) hx.Result {
	if res.OK {
		res.NT += "|" + order
		return res
	}
	res.Key += "/order=" + order
	res.What += " [second call of the sequence " + order + " on the same string in one process]"
	return res
}

// realise turns abstract elements into the concrete string.
func realise(elems []string, padlen int) string {
	var b strings.Builder
	for _, e := range elems {
		switch e {
		case "sp":
			b.WriteByte(' ')
		case "nul":
			b.WriteByte(0)
		case "lf":
			b.WriteByte('\n')
		case "cr":
			b.WriteByte('\r')
		case "tab":
			b.WriteByte('\t')
		case "u2":
			b.WriteString("é")
		case "u4":
			b.WriteString("\U0001F600")
		case "PAD":
			b.WriteString(strings.Repeat("p", padlen))
		default:
			if len(e) != 1 {
				fatalf("unknown string element %q", e)
			}
			b.WriteString(e)
		}
	}
	return b.String()
}

func verdictOf(ok bool) string {
	if ok {
		return "acc"
	}
	return "rej"
}

func show(s string) string {
	if len(s) > 70 {
		return fmt.Sprintf("%q...(%d bytes)", s[:60], len(s))
	}
	return fmt.Sprintf("%q", s)
}

func identReplay(mode string, raw json.RawMessage) hx.Result {
	var r identRec
	if err := json.Unmarshal(raw, &r); err != nil {
		fatalf("bad record: %v", err)
	}
	s := realise(r.S, r.Padlen)
	if len(s) != r.Bytes {
		fatalf("concretiser: %q has %d bytes, the model says %d", s, len(s), r.Bytes)
	}
	part := func(from, to int) string { // elements from..to (1-based, inclusive)
		if from > to {
			return ""
		}
		return realise(r.S[from-1:to], r.Padlen)
	}
	fail := func(parser, k, want, got, what string) hx.Result {
		return hx.Result{OK: false, Key: fmt.Sprintf("C17/ident/%s/%s/model=%s,code=%s", parser, k, want, got),
			What: fmt.Sprintf("%s(%s): %s", parser, show(s), what), Want: want, Got: got}
	}
	switch mode {
	case "us", "uh":
		want, k, hist, name := r.US, r.KU, false, "NewUserID-strict"
		if mode == "uh" {
			want, k, hist, name = r.UH, r.KH, true, "NewUserID-historical"
		}
		u, err := spec.NewUserID(s, hist)
		got := verdictOf(err == nil)
		nt := mode + "|" + k + "|" + want + "|" + got
		if want != "free" && want != got {
			return fail(name, k, want, got, fmt.Sprintf("the grammar says %s, the library says %s (err=%v)", want, got, err))
		}
		if err == nil {
			if u.String() != s || "@"+u.Local()+":"+string(u.Domain()) != s {
				return fail(name, k, want, "parts", fmt.Sprintf("parts do not re-concatenate: local=%q domain=%q", u.Local(), u.Domain()))
			}
			if want == "acc" && (u.Local() != part(2, r.Cut-1) || string(u.Domain()) != part(r.Cut+1, len(r.S))) {
				return fail(name, k, want, "parts", fmt.Sprintf("local=%q domain=%q, expected %q %q", u.Local(), u.Domain(), part(2, r.Cut-1), part(r.Cut+1, len(r.S))))
			}
		}
		return hx.Result{OK: true, NT: nt}
	case "rm":
		want, k := r.RM, r.KR
		rid, err := spec.NewRoomID(s)
		got := verdictOf(err == nil)
		if _, err2 := spec.NewRoomID(s); (err2 == nil) != (err == nil) {
			return fail("NewRoomID", r.KR, r.RM, "unstable", "the same call answers differently the second time")
		}
		nt := mode + "|" + k + "|" + want + "|" + got
		if want != "free" && want != got {
			return fail("NewRoomID", k, want, got, fmt.Sprintf("the grammar says %s, the library says %s (err=%v)", want, got, err))
		}
		if err == nil {
			hasDomain := strings.Contains(s, ":")
			if rid.String() != s {
				return fail("NewRoomID", k, want, "parts", "String() differs from the input")
			}
			if hasDomain {
				if "!"+rid.OpaqueID()+":"+string(rid.Domain()) != s {
					return fail("NewRoomID", k, want, "parts", fmt.Sprintf("parts do not re-concatenate: opaque=%q domain=%q", rid.OpaqueID(), rid.Domain()))
				}
				if want == "acc" && (rid.OpaqueID() != part(2, r.Cut-1) || string(rid.Domain()) != part(r.Cut+1, len(r.S))) {
					return fail("NewRoomID", k, want, "parts", fmt.Sprintf("opaque=%q domain=%q", rid.OpaqueID(), rid.Domain()))
				}
			} else if "!"+rid.OpaqueID() != s {
				return fail("NewRoomID", k, want, "parts", fmt.Sprintf("domainless parts do not re-concatenate: opaque=%q", rid.OpaqueID()))
			}
		}
		// the same string as the room_id of an event, through the event constructors (they validate it)
		if roomIDThroughEvents(r, s) {
			if res := roomIDInEvents(r, s, fail); res != nil {
				return *res
			}
			nt += "|in-event"
		}
		return hx.Result{OK: true, NT: nt}
	case "sn":
		want, k := r.SN, r.KS
		host, port, valid := spec.ParseAndValidateServerName(spec.ServerName(s))
		got := verdictOf(valid)
		if h2, p2, v2 := spec.ParseAndValidateServerName(spec.ServerName(s)); h2 != host || p2 != port || v2 != valid {
			return fail("ParseAndValidateServerName", r.KS, r.SN, "unstable", "the same call answers differently the second time")
		}
		nt := mode + "|" + k + "|" + want + "|" + got
		if want != "free" && want != got {
			return fail("ParseAndValidateServerName", k, want, got, fmt.Sprintf("the grammar says %s, the library says %s (host=%q port=%d)", want, got, host, port))
		}
		if valid {
			// parts re-concatenate: host [":" digits] with the digits denoting the reported port
			okParts := false
			if port == -1 {
				okParts = host == s
			} else if strings.HasPrefix(s, host+":") {
				n, err := strconv.Atoi(s[len(host)+1:])
				okParts = err == nil && n == port
			}
			if !okParts {
				return fail("ParseAndValidateServerName", k, want, "parts", fmt.Sprintf("host=%q port=%d do not re-concatenate", host, port))
			}
			if want == "acc" {
				wantHost := s
				if r.PCut > 0 {
					wantHost = part(1, r.PCut-1)
				}
				if host != wantHost || port != r.Port {
					return fail("ParseAndValidateServerName", k, want, "parts", fmt.Sprintf("host=%q port=%d, expected %q %d", host, port, wantHost, r.Port))
				}
			}
		}
		return hx.Result{OK: true, NT: nt}
	default: // split
		nt := "split"
		for _, c := range []struct {
			sigil byte
			want  string
			k     string
		}{{'@', r.UH, r.KH}, {'!', r.RM, r.KR}} {
			local, domain, err := gmsl.SplitID(c.sigil, s)
			if err == nil && string(c.sigil)+local+":"+string(domain) != s {
				return fail("SplitID", c.k, c.want, "parts", fmt.Sprintf("local=%q domain=%q do not re-concatenate", local, domain))
			}
			if c.want == "acc" && r.Cut > 0 {
				if err != nil || local != part(2, r.Cut-1) || string(domain) != part(r.Cut+1, len(r.S)) {
					return fail("SplitID", c.k, c.want, "parts", fmt.Sprintf("valid identifier split into %q %q (err=%v)", local, domain, err))
				}
				nt = "split|valid"
			} else if err == nil {
				nt = "split|lenient"
			}
		}
		// SenderID: a sender that starts with '@' is a user ID; ToUserID parses it in historical mode
		if len(s) > 0 {
			sid := spec.SenderID(s)
			if sid.IsUserID() != (s[0] == '@') || sid.IsPseudoID() == sid.IsUserID() {
				return fail("SenderID.IsUserID", r.KH, r.UH, "kind", fmt.Sprintf("IsUserID=%v IsPseudoID=%v", sid.IsUserID(), sid.IsPseudoID()))
			}
			u := sid.ToUserID()
			got := verdictOf(u != nil)
			if r.UH != "free" && r.UH != got {
				return fail("SenderID.ToUserID", r.KH, r.UH, got, fmt.Sprintf("the grammar says %s, ToUserID gives %v", r.UH, u))
			}
			if u != nil && (u.String() != s || "@"+u.Local()+":"+string(u.Domain()) != s) {
				return fail("SenderID.ToUserID", r.KH, r.UH, "parts", "parts do not re-concatenate")
			}
			if u != nil {
				nt += "|sender"
			}
		}
		return hx.Result{OK: true, NT: nt}
	}
}

// roomIDThroughEvents selects the strings that also go through the event constructors: the whole family
// "stray", and elsewhere everything that has the shape of a room ID (the sigil; valid, domainless-like or short).
func roomIDThroughEvents(r identRec, s string) bool {
	if strings.HasPrefix(r.Fam, "stray") {
		return true
	}
	return strings.HasPrefix(s, "!") && (r.RM != "rej" || r.Cut == 0 || r.Fam == "free")
}

// roomIDInEvents: an event (not a create event) whose room_id is s, in one room version per constructor, on
// receipt and from trusted JSON.  A string that is no room ID must not get through; a valid room ID of the form
// the version uses must; and whatever gets through reports the room ID it came with.
func roomIDInEvents(r identRec, s string, fail func(parser, k, want, got, what string) hx.Result) *hx.Result {
	for _, ver := range []string{"1", "10", "12"} {
		v := mustVersion(ver)
		js := handSigned(ver, v, evFields{Type: "c17.test", Sender: "@alice:hs1", RoomID: s, Content: map[string]string{"body": "x"}})
		var back struct {
			RoomID string `json:"room_id"`
		}
		if err := json.Unmarshal(js, &back); err != nil || back.RoomID != s {
			fatalf("concretiser: the event JSON does not carry the room ID %q (%v)", s, err)
		}
		for _, ctor := range []string{"NewEventFromUntrustedJSON", "NewEventFromTrustedJSON"} {
			var ev gmsl.PDU
			var err error
			if ctor == "NewEventFromUntrustedJSON" {
				ev, err = v.NewEventFromUntrustedJSON(js)
			} else {
				ev, err = v.NewEventFromTrustedJSON(js, false)
			}
			name := ctor + "-room_id"
			// a persistable "too large" report is not an acceptance of the room ID
			accepted := err == nil
			got := verdictOf(accepted)
			if r.RM == "rej" && accepted {
				res := fail(name, r.KR, "rej", "acc", fmt.Sprintf("room version %s: the grammar says this is no room ID, the constructor makes an event of it", ver))
				return &res
			}
			formOfVersion := (ver == "12") == (r.Cut == 0) // domainless in version 12, with a domain before
			if r.RM == "acc" && formOfVersion && !accepted {
				res := fail(name, r.KR, "acc", got, fmt.Sprintf("room version %s: a valid room ID is refused as the room_id of an event (err=%v)", ver, err))
				return &res
			}
			if accepted {
				if isNilPDU(ev) {
					res := fail(name, r.KR, r.RM, "nothing", fmt.Sprintf("room version %s: no error and no event", ver))
					return &res
				}
				if rid := ev.RoomID(); rid.String() != s {
					res := fail(name, r.KR, r.RM, "parts", fmt.Sprintf("room version %s: the event reports room ID %q", ver, rid.String()))
					return &res
				}
			}
		}
	}
	return nil
}
