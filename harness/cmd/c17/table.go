package main

// Replays VersionTable.tla: per room version, every IRoomVersion getter and one behavioural probe per
// function-valued table entry (the observable outcome of the function the table points at).

import (
	"bytes"
	"context"
	"crypto/sha256"
	"encoding/base64"
	"encoding/json"
	"fmt"
	"sort"
	"strings"
	"time"

	gmsl "github.com/matrix-org/gomatrixserverlib"
	"github.com/matrix-org/gomatrixserverlib/spec"
	"verifharness/hx"
)

type rowRec struct {
	StateRes   string `json:"stateres"`
	Format     int    `json:"format"`
	IDFormat   int    `json:"idformat"`
	Redaction  int    `json:"redaction"`
	StrictKeys bool   `json:"strictkeys"`
	CanonJSON  bool   `json:"canonjson"`
	IntPL      bool   `json:"intpl"`
	Knock      bool   `json:"knock"`
	Restricted bool   `json:"restricted"`
	Creators   bool   `json:"creators"`
	Domainless bool   `json:"domainless"`
}

type tableRec struct {
	Ver        string   `json:"ver"`
	Probe      string   `json:"probe"`
	Trait      string   `json:"trait"`
	Want       string   `json:"want"`
	Row        rowRec   `json:"row"`
	Stable     bool     `json:"stable"`
	Registered []string `json:"registered"`
	StableSet  []string `json:"stableset"`
}

func init() {
	hx.Register("table", "replay VersionTable.tla (getters and behavioural probes per room version)", func(a *hx.Args) error {
		return hx.ReplayAll(a, func(i int, raw json.RawMessage) hx.Result { return tableReplay(raw) })
	})
}

// an event ID cited as auth event by the format probes (43 URL-safe characters: acceptable in every version)
const citedAuthID = "$BBBBBBBBBBBBBBBBBBBBBBBBBBBBBBBBBBBBBBBBBBB"

const (
	creator = "@creator:hs1"
	alice   = "@alice:hs1"
	bob     = "@bob:hs1"
)

func tableReplay(raw json.RawMessage) hx.Result {
	var r tableRec
	if err := json.Unmarshal(raw, &r); err != nil {
		fatalf("bad record: %v", err)
	}
	fail := func(name, want, got, what string) hx.Result {
		return hx.Result{OK: false, Want: want, Got: got,
			Key:  fmt.Sprintf("C17/table/%s/%s/ver=%s/model=%s,code=%s", r.Trait, name, r.Ver, want, got),
			What: fmt.Sprintf("room version %s, %s (decides %s): the specification's table says %q, the library shows %q%s", r.Ver, name, r.Trait, want, got, what)}
	}
	v, err := gmsl.GetRoomVersion(gmsl.RoomVersion(r.Ver))
	if err != nil {
		return fail("registered", "yes", "no", "")
	}
	if r.Probe == "getters" {
		sr := map[string]gmsl.StateResAlgorithm{"v1": gmsl.StateResV1, "v2": gmsl.StateResV2, "v2.1": gmsl.StateResV2_1}[r.Row.StateRes]
		checks := []struct {
			name      string
			want, got interface{}
		}{
			{"Version", r.Ver, string(v.Version())},
			{"Stable", r.Stable, v.Stable()},
			{"StableRoomVersion", r.Stable, gmsl.StableRoomVersion(gmsl.RoomVersion(r.Ver))},
			{"KnownRoomVersion", true, gmsl.KnownRoomVersion(gmsl.RoomVersion(r.Ver))},
			{"StateResAlgorithm", int(sr), int(v.StateResAlgorithm())},
			{"EventFormat", r.Row.Format, int(v.EventFormat())},
			{"EventIDFormat", r.Row.IDFormat, int(v.EventIDFormat())},
			{"DomainlessRoomIDs", r.Row.Domainless, v.DomainlessRoomIDs()},
			{"PrivilegedCreators", r.Row.Creators, v.PrivilegedCreators()},
			{"RoomVersions", sortedCopy(r.Registered), keysOf(gmsl.RoomVersions())},
			{"StableRoomVersions", sortedCopy(r.StableSet), keysOf(gmsl.StableRoomVersions())},
		}
		for _, c := range checks {
			w, g := fmt.Sprint(c.want), fmt.Sprint(c.got)
			if w != g {
				return fail("getter:"+c.name, w, g, "")
			}
		}
		return hx.Result{OK: true, NT: "getters|" + r.Ver}
	}
	got, detail := runProbe(r.Ver, v, r.Probe)
	if got != r.Want {
		if detail != "" {
			detail = " (" + detail + ")"
		}
		return fail(r.Probe, r.Want, got, detail)
	}
	return hx.Result{OK: true, NT: r.Probe + "|" + r.Want}
}

func sortedCopy(s []string) []string {
	o := append([]string{}, s...)
	sort.Strings(o)
	return o
}

func keysOf(m map[gmsl.RoomVersion]gmsl.IRoomVersion) []string {
	var o []string
	for k := range m {
		o = append(o, string(k))
	}
	sort.Strings(o)
	return o
}

// ---- a small real room ---------------------------------------------------------

type room struct {
	ver    string
	v      gmsl.IRoomVersion
	id     string
	create gmsl.PDU
	last   gmsl.PDU
	depth  int64
}

func newRoom(ver string, v gmsl.IRoomVersion) (*room, error) {
	f := evFields{Type: spec.MRoomCreate, StateKey: strp(""), Sender: creator,
		Content: map[string]interface{}{"creator": creator, "room_version": ver}}
	if !specDomainless(ver) {
		f.RoomID = "!r:hs1"
	}
	c, err := build(v, f)
	if err != nil {
		return nil, fmt.Errorf("create event: %w", err)
	}
	r := &room{ver: ver, v: v, create: c, last: c, depth: 1, id: "!r:hs1"}
	if specDomainless(ver) {
		r.id = "!" + c.EventID()[1:]
	}
	return r, nil
}

// add builds the next event of the room citing the given auth events.
func (r *room) add(typ string, stateKey *string, sender string, content interface{}, auth ...gmsl.PDU) (gmsl.PDU, error) {
	var ids []string
	for _, a := range auth {
		if specDomainless(r.ver) && a.Type() == spec.MRoomCreate {
			continue // the create event is implied by the room ID
		}
		ids = append(ids, a.EventID())
	}
	r.depth++
	ev, err := build(r.v, evFields{Type: typ, StateKey: stateKey, Sender: sender, RoomID: r.id, Content: content,
		Prev: []string{r.last.EventID()}, Auth: ids, Depth: r.depth})
	if err != nil {
		return nil, fmt.Errorf("%s event: %w", typ, err)
	}
	r.last = ev
	return ev, nil
}

func allowed(ev gmsl.PDU, state ...gmsl.PDU) error {
	p, err := gmsl.NewAuthEvents(state)
	if err != nil {
		return err
	}
	return gmsl.Allowed(ev, p, identityQuerier)
}

func acc(err error) string {
	if err == nil {
		return "allowed"
	}
	return "rejected"
}

func short(err error) string {
	if err == nil {
		return ""
	}
	s := err.Error()
	if len(s) > 200 {
		s = s[:200]
	}
	return s
}

// redactKeeps redacts a hand-written event of the given type and says whether `path` survives.
func redactKeeps(v gmsl.IRoomVersion, typ string, content map[string]interface{}, path ...string) (string, string) {
	ev := map[string]interface{}{
		"type": typ, "state_key": "", "sender": creator, "room_id": "!r:hs1", "content": content,
		"origin": "hs1", "prev_state": []string{}, "membership": "join", "depth": 3, "origin_server_ts": 1,
		"prev_events": []string{}, "auth_events": []string{}, "hashes": map[string]string{"sha256": "x"},
		"unsigned": map[string]int{"age": 1}, "custom_top_level": true,
	}
	b, _ := json.Marshal(ev)
	red, err := v.RedactEventJSON(b)
	if err != nil {
		return "error", short(err)
	}
	var cur interface{}
	if err := json.Unmarshal(red, &cur); err != nil {
		return "error", short(err)
	}
	for _, k := range path {
		m, ok := cur.(map[string]interface{})
		if !ok {
			return "dropped", ""
		}
		cur, ok = m[k]
		if !ok {
			return "dropped", ""
		}
	}
	// control: user-controlled keys never survive
	var top map[string]interface{}
	_ = json.Unmarshal(red, &top)
	if _, bad := top["custom_top_level"]; bad {
		return "error", "custom top-level key survived redaction"
	}
	return "kept", ""
}

// joinQuerier answers CheckRestrictedJoin from a fixed room state: the joining user is in the allowed room.
type joinQuerier struct {
	state map[string]gmsl.PDU
	info  *gmsl.RestrictedRoomJoinInfo
}

func (q *joinQuerier) CurrentStateEvent(ctx context.Context, roomID spec.RoomID, eventType string, stateKey string) (gmsl.PDU, error) {
	if stateKey != "" {
		return nil, nil
	}
	if ev, ok := q.state[eventType]; ok {
		return ev, nil
	}
	return nil, nil
}

func (q *joinQuerier) InvitePending(ctx context.Context, roomID spec.RoomID, senderID spec.SenderID) (bool, error) {
	return false, nil
}

func (q *joinQuerier) RestrictedRoomJoinInfo(ctx context.Context, roomID spec.RoomID, senderID spec.SenderID, localServerName spec.ServerName) (*gmsl.RestrictedRoomJoinInfo, error) {
	return q.info, nil
}

func firstNonSpace(b []byte, skip int) byte {
	for _, c := range b {
		if c == ' ' || c == '\n' {
			continue
		}
		if skip == 0 {
			return c
		}
		skip--
	}
	return '?'
}

func runProbe(ver string, v gmsl.IRoomVersion, probe string) (string, string) {
	now := time.Now()
	ts := func(d time.Duration) spec.Timestamp { return spec.AsTimestamp(now.Add(d)) }
	valid := func(b bool) string {
		if b {
			return "valid"
		}
		return "invalid"
	}
	canon := func(doc string) (string, string) {
		if err := v.CheckCanonicalJSON([]byte(doc)); err != nil {
			return "rejected", short(err)
		}
		return "accepted", ""
	}
	parsePL := func(doc string) (string, string) {
		var c gmsl.PowerLevelContent
		c.Defaults()
		if err := v.ParsePowerLevels([]byte(doc), &c); err != nil {
			return "rejected", short(err)
		}
		return fmt.Sprintf("ok:%d", c.UsersDefault), ""
	}
	switch probe {
	// ---- event format / event ID format: what EventBuilder.Build produces ----
	case "build_refs", "build_event_id_key", "build_id", "receipt_own_format":
		r, err := newRoom(ver, v)
		if err != nil {
			return "setup-error", short(err)
		}
		for nonce := 0; nonce < 200; nonce++ {
			ev, err := build(v, evFields{Type: "m.room.message", Sender: creator, RoomID: r.id,
				Content: map[string]interface{}{"body": "hello", "nonce": nonce},
				Prev:    []string{r.create.EventID()}, Auth: []string{citedAuthID}, Depth: 2})
			if err != nil {
				return "setup-error", short(err)
			}
			var top map[string]json.RawMessage
			if err := json.Unmarshal(ev.JSON(), &top); err != nil {
				return "setup-error", short(err)
			}
			switch probe {
			case "build_refs":
				// both reference lists must have the shape of the version's event format
				shapes := map[string]bool{}
				for key, wantID := range map[string]string{"prev_events": r.create.EventID(), "auth_events": citedAuthID} {
					var list []json.RawMessage
					if err := json.Unmarshal(top[key], &list); err != nil || len(list) != 1 {
						return "other", key + "=" + string(top[key])
					}
					var id string
					var tuple []json.RawMessage
					switch {
					case json.Unmarshal(list[0], &id) == nil && id == wantID:
						shapes["ids"] = true
					case json.Unmarshal(list[0], &tuple) == nil && len(tuple) == 2 && json.Unmarshal(tuple[0], &id) == nil && id == wantID:
						shapes["tuples"] = true
					default:
						return "other", key + "=" + string(top[key])
					}
				}
				if len(shapes) != 1 {
					return "mixed", string(top["prev_events"]) + " / " + string(top["auth_events"])
				}
				for s := range shapes {
					return s, ""
				}
			case "build_event_id_key":
				raw, ok := top["event_id"]
				if !ok {
					return "absent", ""
				}
				var keyed string
				if json.Unmarshal(raw, &keyed) != nil || keyed != ev.EventID() || keyed == "" {
					return "present-but-not-the-id", "event_id=" + string(raw) + " EventID()=" + ev.EventID()
				}
				return "present", ""
			case "receipt_own_format":
				back, err := v.NewEventFromUntrustedJSON(ev.JSON())
				if err != nil || back.Redacted() || back.EventID() != ev.EventID() {
					return "rejected", short(err)
				}
				return "accepted", ""
			}
			// build_id: the reference hash, computed here from the specification
			red, err := v.RedactEventJSON(ev.JSON())
			if err != nil {
				return "setup-error", short(err)
			}
			var rm map[string]json.RawMessage
			_ = json.Unmarshal(red, &rm)
			delete(rm, "signatures")
			delete(rm, "unsigned")
			delete(rm, "age_ts")
			hb, _ := json.Marshal(rm)
			hc, err := gmsl.CanonicalJSON(hb)
			if err != nil {
				return "setup-error", short(err)
			}
			sum := sha256.Sum256(hc)
			std := "$" + base64.RawStdEncoding.EncodeToString(sum[:])
			url := "$" + base64.RawURLEncoding.EncodeToString(sum[:])
			id := ev.EventID()
			var keyed string
			_ = json.Unmarshal(top["event_id"], &keyed)
			if strings.HasSuffix(id, ":"+string(origin)) && keyed == id {
				return "given", ""
			}
			if std == url {
				continue // this hash does not tell the two alphabets apart: next nonce
			}
			switch id {
			case std:
				return "b64std", ""
			case url:
				return "b64url", ""
			}
			return "other", id
		}
		return "other", "no discriminating hash in 200 tries"

	// ---- redaction algorithm: which keys survive RedactEventJSON ----
	case "redact_aliases":
		return redactKeeps(v, "m.room.aliases", map[string]interface{}{"aliases": []string{"#a:hs1"}}, "content", "aliases")
	case "redact_allow":
		return redactKeeps(v, "m.room.join_rules", map[string]interface{}{"join_rule": "restricted", "allow": []string{}}, "content", "allow")
	case "redact_via":
		return redactKeeps(v, "m.room.member", map[string]interface{}{"membership": "join", "join_authorised_via_users_server": alice}, "content", "join_authorised_via_users_server")
	case "redact_create_extra":
		return redactKeeps(v, "m.room.create", map[string]interface{}{"creator": creator, "m.federate": false}, "content", "m.federate")
	case "redact_pl_invite":
		return redactKeeps(v, "m.room.power_levels", map[string]interface{}{"invite": 50, "ban": 50}, "content", "invite")
	case "redact_redacts":
		return redactKeeps(v, "m.room.redaction", map[string]interface{}{"redacts": "$x", "reason": "r"}, "content", "redacts")
	case "redact_origin":
		return redactKeeps(v, "m.room.topic", map[string]interface{}{"topic": "t"}, "origin")
	case "redact_prev_state":
		return redactKeeps(v, "m.room.topic", map[string]interface{}{"topic": "t"}, "prev_state")
	case "redact_membership_key":
		return redactKeeps(v, "m.room.topic", map[string]interface{}{"topic": "t"}, "membership")

	// ---- signing-key validity rule (margins of hours and days to the real clock) ----
	case "key_expired":
		return valid(v.SignatureValidityCheck(ts(-1*time.Hour), ts(-2*time.Hour))), ""
	case "key_far_future":
		return valid(v.SignatureValidityCheck(ts(8*24*time.Hour), ts(30*24*time.Hour))), ""
	case "key_within":
		return valid(v.SignatureValidityCheck(ts(-2*time.Hour), ts(-1*time.Hour))), ""

	// ---- canonical JSON enforcement ----
	case "canon_float":
		return canon(`{"a":1.5}`)
	case "canon_bigint":
		return canon(`{"a":9007199254740992}`)
	case "canon_int":
		return canon(`{"a":5,"b":{"c":[-3]}}`)
	case "receipt_float":
		in := handSigned(ver, v, evFields{Type: "c17.test", Sender: creator, RoomID: naturalRoomID(ver), Content: json.RawMessage(`{"a":1.5}`)})
		if !bytes.Contains(in, []byte("1.5")) {
			return "setup-error", "the float did not survive hand signing: " + string(in)
		}
		if _, err := v.NewEventFromUntrustedJSON(in); err != nil {
			return "rejected", short(err)
		}
		return "accepted", ""

	// ---- power-level parsing ----
	case "pl_string":
		return parsePL(`{"users_default":"50"}`)
	case "pl_int":
		return parsePL(`{"users_default":50}`)
	case "pl_string_event":
		r, err := newRoom(ver, v)
		if err != nil {
			return "setup-error", short(err)
		}
		pl, err := r.add(spec.MRoomPowerLevels, strp(""), creator, json.RawMessage(`{"users_default":"50"}`), r.create)
		if err != nil {
			return "setup-error", short(err)
		}
		c, err := gmsl.NewPowerLevelContentFromEvent(pl)
		if err != nil {
			return "rejected", short(err)
		}
		return fmt.Sprintf("ok:%d", c.UsersDefault), ""

	// ---- knocking ----
	case "knock_func":
		return acc(v.CheckKnockingAllowed(ver, bob, bob, "knock", "leave")), ""
	case "knock_auth", "restricted_auth", "creator_power":
		r, err := newRoom(ver, v)
		if err != nil {
			return "setup-error", short(err)
		}
		cj, err := r.add(spec.MRoomMember, strp(creator), creator, map[string]string{"membership": "join"}, r.create)
		if err != nil {
			return "setup-error", short(err)
		}
		if err := allowed(cj, r.create); err != nil {
			return "setup-error", "the creator's join is not allowed: " + short(err)
		}
		switch probe {
		case "knock_auth":
			jr, err := r.add(spec.MRoomJoinRules, strp(""), creator, map[string]string{"join_rule": "knock"}, r.create, cj)
			if err != nil {
				return "setup-error", short(err)
			}
			if err := allowed(jr, r.create, cj); err != nil {
				return "setup-error", "the join rules event is not allowed: " + short(err)
			}
			k, err := r.add(spec.MRoomMember, strp(bob), bob, map[string]string{"membership": "knock"}, r.create, jr)
			if err != nil {
				return "setup-error", short(err)
			}
			err = allowed(k, r.create, cj, jr)
			return acc(err), short(err)
		case "restricted_auth":
			jr, err := r.add(spec.MRoomJoinRules, strp(""), creator,
				map[string]interface{}{"join_rule": "restricted", "allow": []map[string]string{{"type": "m.room_membership", "room_id": "!other:hs1"}}}, r.create, cj)
			if err != nil {
				return "setup-error", short(err)
			}
			j, err := r.add(spec.MRoomMember, strp(bob), bob,
				map[string]string{"membership": "join", "join_authorised_via_users_server": creator}, r.create, jr, cj)
			if err != nil {
				return "setup-error", short(err)
			}
			err = allowed(j, r.create, cj, jr)
			return acc(err), short(err)
		default: // creator_power: the creator is not in the users map, changing the room name needs level 50
			pl, err := r.add(spec.MRoomPowerLevels, strp(""), creator,
				map[string]interface{}{"users": map[string]int{alice: 100}, "users_default": 0, "state_default": 50, "events_default": 0}, r.create, cj)
			if err != nil {
				return "setup-error", short(err)
			}
			name, err := r.add("m.room.name", strp(""), creator, map[string]string{"name": "n"}, r.create, cj, pl)
			if err != nil {
				return "setup-error", short(err)
			}
			err = allowed(name, r.create, cj, pl)
			return acc(err), short(err)
		}

	// ---- hardening pass: further entry points, boundaries, fields without effect ----
	case "key_boundary":
		at := ts(-1 * time.Hour)
		return valid(v.SignatureValidityCheck(at, at)), ""
	case "canon_maxint":
		return canon(`{"a":9007199254740991,"b":-9007199254740991}`)
	case "canon_exponent":
		return canon(`{"a":1e2}`)
	case "pl_string_users":
		var c gmsl.PowerLevelContent
		c.Defaults()
		if err := v.ParsePowerLevels([]byte(`{"users":{"@alice:hs1":"50"}}`), &c); err != nil {
			return "rejected", short(err)
		}
		return fmt.Sprintf("ok:%d", c.Users[alice]), ""
	case "headered_roundtrip", "build_reuse", "sender_not_user_id":
		r, err := newRoom(ver, v)
		if err != nil {
			return "setup-error", short(err)
		}
		switch probe {
		case "headered_roundtrip":
			h, err := r.create.ToHeaderedJSON()
			if err != nil {
				return "error", short(err)
			}
			back, err := gmsl.NewEventFromHeaderedJSON(h, false)
			if err != nil {
				return "error", short(err)
			}
			if string(back.Version()) != ver || back.EventID() != r.create.EventID() || !bytes.Equal(back.JSON(), r.create.JSON()) {
				return "differs", fmt.Sprintf("version %s id %s", back.Version(), back.EventID())
			}
			return "same", ""
		case "build_reuse":
			eb := v.NewEventBuilderFromProtoEvent(&gmsl.ProtoEvent{SenderID: creator, RoomID: r.id, Type: "m.room.message",
				PrevEvents: []string{r.create.EventID()}, AuthEvents: []string{citedAuthID}, Depth: 2, Content: []byte(`{"body":"x"}`)})
			var shapes []string
			for i := 0; i < 2; i++ {
				ev, err := eb.Build(evNow, origin, keyID, testKey)
				if err != nil {
					return "error", short(err)
				}
				back, err := v.NewEventFromUntrustedJSON(ev.JSON())
				if err != nil || back.Redacted() || back.EventID() != ev.EventID() {
					return "unstable", fmt.Sprintf("build %d is not accepted as built (err=%v)", i+1, err)
				}
				var top map[string]json.RawMessage
				_ = json.Unmarshal(ev.JSON(), &top)
				_, hasID := top["event_id"]
				shapes = append(shapes, fmt.Sprintf("%v|%c|%c", hasID, firstNonSpace(top["prev_events"], 1), firstNonSpace(top["auth_events"], 1)))
			}
			if shapes[0] != shapes[1] {
				return "unstable", strings.Join(shapes, " vs ")
			}
			return "stable", ""
		default: // sender_not_user_id: a sender that is a key, not a user ID
			pseudo := string(spec.SenderIDFromPseudoIDKey(testKey))
			_, err := build(v, evFields{Type: "m.room.message", Sender: pseudo, RoomID: r.id, Content: map[string]string{"body": "x"},
				Prev: []string{r.create.EventID()}, Depth: 2})
			if err != nil {
				return "rejected", short(err)
			}
			return "accepted", ""
		}
	case "receipt_domainless_room_id":
		in := handSigned(ver, v, evFields{Type: "c17.test", Sender: creator, RoomID: room43, Content: map[string]string{"body": "x"}})
		if _, err := v.NewEventFromUntrustedJSON(in); err != nil {
			return "rejected", short(err)
		}
		return "accepted", ""
	case "addl_creator_power":
		f := evFields{Type: spec.MRoomCreate, StateKey: strp(""), Sender: creator,
			Content: map[string]interface{}{"creator": creator, "room_version": ver, "additional_creators": []string{alice}}}
		if !specDomainless(ver) {
			f.RoomID = "!r:hs1"
		}
		c, err := build(v, f)
		if err != nil {
			return "setup-error", short(err)
		}
		r := &room{ver: ver, v: v, create: c, last: c, depth: 1, id: "!r:hs1"}
		if specDomainless(ver) {
			r.id = "!" + c.EventID()[1:]
		}
		aj, err := r.add(spec.MRoomMember, strp(alice), alice, map[string]string{"membership": "join"}, r.create)
		if err != nil {
			return "setup-error", short(err)
		}
		pl, err := r.add(spec.MRoomPowerLevels, strp(""), creator,
			map[string]interface{}{"users": map[string]int{bob: 100}, "users_default": 0, "state_default": 50, "events_default": 0}, r.create)
		if err != nil {
			return "setup-error", short(err)
		}
		name, err := r.add("m.room.name", strp(""), alice, map[string]string{"name": "n"}, r.create, aj, pl)
		if err != nil {
			return "setup-error", short(err)
		}
		err = allowed(name, r.create, aj, pl)
		return acc(err), short(err)
	case "restricted_assist":
		r, err := newRoom(ver, v)
		if err != nil {
			return "setup-error", short(err)
		}
		cj, err := r.add(spec.MRoomMember, strp(creator), creator, map[string]string{"membership": "join"}, r.create)
		if err != nil {
			return "setup-error", short(err)
		}
		jr, err := r.add(spec.MRoomJoinRules, strp(""), creator,
			map[string]interface{}{"join_rule": "restricted", "allow": []map[string]string{{"type": "m.room_membership", "room_id": "!other:hs1"}}}, r.create, cj)
		if err != nil {
			return "setup-error", short(err)
		}
		pl, err := r.add(spec.MRoomPowerLevels, strp(""), creator,
			map[string]interface{}{"users": map[string]int{alice: 50}, "users_default": 0, "invite": 0}, r.create, cj)
		if err != nil {
			return "setup-error", short(err)
		}
		rid, err := spec.NewRoomID(r.id)
		if err != nil {
			return "setup-error", short(err)
		}
		q := &joinQuerier{state: map[string]gmsl.PDU{spec.MRoomCreate: r.create, spec.MRoomJoinRules: jr, spec.MRoomPowerLevels: pl},
			info: &gmsl.RestrictedRoomJoinInfo{LocalServerInRoom: true, UserJoinedToRoom: true, JoinedUsers: []gmsl.PDU{cj}}}
		via, err := v.CheckRestrictedJoin(context.Background(), origin, q, *rid, spec.SenderID(bob))
		if err != nil {
			return "error", short(err)
		}
		return via, ""

	// ---- restricted joins ----
	case "restricted_func":
		return acc(v.CheckRestrictedJoinsAllowed()), ""
	case "restricted_servername":
		sn, err := v.RestrictedJoinServername([]byte(`{"membership":"join","join_authorised_via_users_server":"@u:hs2"}`))
		if err != nil {
			return "error", short(err)
		}
		return string(sn), ""

	// ---- creators ----
	case "creator_in_pl", "notif_check":
		r, err := newRoom(ver, v)
		if err != nil {
			return "setup-error", short(err)
		}
		var oldPL, newPL gmsl.PowerLevelContent
		oldPL.Defaults()
		newPL.Defaults()
		if probe == "creator_in_pl" {
			newPL.Users = map[string]int64{creator: 100}
			err = v.CheckPowerLevelEvent(creator, r.create, oldPL, newPL)
			return acc(err), short(err)
		}
		oldPL.Users = map[string]int64{alice: 50}
		newPL.Users = map[string]int64{alice: 50}
		oldPL.Notifications = map[string]int64{"room": 50}
		newPL.Notifications = map[string]int64{"room": 100}
		err = v.CheckPowerLevelEvent(alice, r.create, oldPL, newPL)
		return acc(err), short(err)
	case "create_no_creator":
		f := evFields{Type: spec.MRoomCreate, StateKey: strp(""), Sender: creator, Content: map[string]interface{}{"room_version": ver}}
		if !specDomainless(ver) {
			f.RoomID = "!r:hs1"
		}
		c, err := build(v, f)
		if err != nil {
			return "setup-error", short(err)
		}
		u, _ := spec.NewUserID(creator, true)
		err = v.CheckCreateEvent(c, *u, gmsl.KnownRoomVersion)
		return acc(err), short(err)

	// ---- room ID format of built create events ----
	case "domainless_create":
		c, err := build(v, evFields{Type: spec.MRoomCreate, StateKey: strp(""), Sender: creator,
			Content: map[string]interface{}{"creator": creator, "room_version": ver}})
		if err != nil {
			return "needs_room_id", short(err)
		}
		if c.RoomID().String() == "!"+c.EventID()[1:] {
			return "derived", ""
		}
		return "other", c.RoomID().String()
	case "create_with_room_id":
		_, err := build(v, evFields{Type: spec.MRoomCreate, StateKey: strp(""), Sender: creator, RoomID: "!r:hs1",
			Content: map[string]interface{}{"creator": creator, "room_version": ver}})
		if err != nil {
			return "rejected", short(err)
		}
		return "ok", ""
	}
	fatalf("unknown probe %q", probe)
	return "", ""
}
