package main

// Replays Base64_gen.tla records through spec.Base64Bytes (Decode / Encode / JSON).

import (
	"bytes"
	"encoding/json"
	"fmt"
	"strings"

	"github.com/matrix-org/gomatrixserverlib/spec"
	"verifharness/hx"
)

type b64Rec struct {
	Variant string   `json:"variant"`
	Bytes   []int    `json:"bytes"`
	Sp      []string `json:"sp"`
	Std     []string `json:"std"`
	Expect  string   `json:"expect"`
}

func init() {
	hx.Register("b64", "replay Base64_gen.tla records against spec.Base64Bytes", func(a *hx.Args) error {
		return hx.ReplayAll(a, func(i int, raw json.RawMessage) hx.Result { return b64Replay(raw) })
	})
}

func b64Replay(raw json.RawMessage) hx.Result {
	var r b64Rec
	if err := json.Unmarshal(raw, &r); err != nil {
		fatalf("bad record: %v", err)
	}
	var sb strings.Builder
	for _, e := range r.Sp {
		switch e {
		case "nl":
			sb.WriteByte('\n')
		case "sp":
			sb.WriteByte(' ')
		default:
			sb.WriteString(e)
		}
	}
	in := sb.String()
	std := strings.Join(r.Std, "")
	want := make([]byte, len(r.Bytes))
	for i, v := range r.Bytes {
		want[i] = byte(v)
	}
	fail := func(stage, what string) hx.Result {
		return hx.Result{OK: false, Key: "C17/base64/" + r.Variant + "/" + stage, What: fmt.Sprintf("%q (bytes %v): %s", in, r.Bytes, what)}
	}
	var d spec.Base64Bytes
	err := d.Decode(in)
	var j spec.Base64Bytes
	quoted, _ := json.Marshal(in)
	jerr := json.Unmarshal(quoted, &j)
	if r.Expect != "value" {
		// nothing demanded beyond not crashing
		return hx.Result{OK: true, NT: fmt.Sprintf("%s|free|decode=%v|json=%v", r.Variant, err == nil, jerr == nil)}
	}
	if err != nil || !bytes.Equal(d, want) {
		return fail("decode", fmt.Sprintf("Decode gives %v, err=%v", []byte(d), err))
	}
	if jerr != nil || !bytes.Equal(j, want) {
		return fail("json-decode", fmt.Sprintf("UnmarshalJSON gives %v, err=%v", []byte(j), jerr))
	}
	if e := d.Encode(); e != std {
		return fail("reencode", fmt.Sprintf("re-encodes to %q, the standard unpadded spelling is %q", e, std))
	}
	out, merr := json.Marshal(d)
	if merr != nil || string(out) != `"`+std+`"` {
		return fail("json-reencode", fmt.Sprintf("MarshalJSON gives %s, err=%v", out, merr))
	}
	// the other ways in: database scan (text column, JSON column), YAML, sender IDs; and the other ways out
	var sc spec.Base64Bytes
	if err := sc.Scan(in); err != nil || !bytes.Equal(sc, want) {
		return fail("scan-string", fmt.Sprintf("Scan(string) gives %v, err=%v", []byte(sc), err))
	}
	var sj spec.Base64Bytes
	if err := sj.Scan(spec.RawJSON(quoted)); err != nil || !bytes.Equal(sj, want) {
		return fail("scan-json", fmt.Sprintf("Scan(RawJSON) gives %v, err=%v", []byte(sj), err))
	}
	var sy spec.Base64Bytes
	if err := sy.UnmarshalYAML(func(v interface{}) error { *(v.(*string)) = in; return nil }); err != nil || !bytes.Equal(sy, want) {
		return fail("yaml-decode", fmt.Sprintf("UnmarshalYAML gives %v, err=%v", []byte(sy), err))
	}
	if raw, err := spec.SenderID(in).RawBytes(); len(in) > 0 && (err != nil || !bytes.Equal(raw, want)) {
		return fail("senderid-rawbytes", fmt.Sprintf("SenderID.RawBytes gives %v, err=%v", []byte(raw), err))
	}
	if val, err := d.Value(); err != nil || val != std {
		return fail("value", fmt.Sprintf("Value gives %v, err=%v", val, err))
	}
	if y, err := d.MarshalYAML(); err != nil || y != std {
		return fail("yaml-reencode", fmt.Sprintf("MarshalYAML gives %v, err=%v", y, err))
	}
	// a receiver that already holds another value, or saw a failed decode, gives the same result
	reused := spec.Base64Bytes{1, 2, 3, 4, 5, 6, 7}
	_ = reused.Decode("!!")
	if err := reused.Decode(in); err != nil || !bytes.Equal(reused, want) {
		return fail("reused-receiver", fmt.Sprintf("Decode into a used receiver gives %v, err=%v", []byte(reused), err))
	}
	// re-encoding decodes to the same value again
	var again spec.Base64Bytes
	if err := again.Decode(d.Encode()); err != nil || !bytes.Equal(again, want) {
		return fail("roundtrip", "the re-encoded value does not decode to the same bytes")
	}
	special := "plain"
	if strings.ContainsAny(in, "+/") {
		special = "std-special"
	} else if strings.ContainsAny(in, "-_") {
		special = "url-special"
	}
	return hx.Result{OK: true, NT: fmt.Sprintf("%s|value|len=%d|%s", r.Variant, len(want), special)}
}
