package main

// Replays Base64_gen.tla records through spec.Base64Bytes (Decode / Encode / JSON).

import (
	"bytes"
	"encoding/json"
	"fmt"
	"strings"

	"github.com/matrix-org/gomatrixserverlib/spec"
	"verifharness/hx"
)

type b64Rec struct {
	Variant string   `json:"variant"`
	Bytes   []int    `json:"bytes"`
	Sp      []string `json:"sp"`
	Std     []string `json:"std"`
	Expect  string   `json:"expect"`
	// how every character of the JSON string is written: "plain" | "sol" | "u" | "U" (absent: all plain)
	Esc      []string `json:"esc"`
	EscClass string   `json:"escclass"`
}

// jsonSpelling writes the string as a JSON string literal, every character in the style the model names.
func jsonSpelling(chars []string, esc []string) []byte {
	var sb strings.Builder
	sb.WriteByte('"')
	for i, c := range chars {
		if len(c) != 1 {
			fatalf("jsonSpelling: %q is not one byte", c)
		}
		switch esc[i] {
		case "plain":
			q, _ := json.Marshal(c) // the character itself; the short escape for a control character
			sb.Write(q[1 : len(q)-1])
		case "sol":
			if c != "/" {
				fatalf("jsonSpelling: the solidus escape for %q", c)
			}
			sb.WriteString(`\/`)
		case "u":
			fmt.Fprintf(&sb, `\u%04x`, c[0])
		case "U":
			fmt.Fprintf(&sb, `\u%04X`, c[0])
		default:
			fatalf("jsonSpelling: unknown style %q", esc[i])
		}
	}
	sb.WriteByte('"')
	return []byte(sb.String())
}

// holder: a base64 value the way keys and signatures arrive, inside a larger document
type b64Holder struct {
	VerifyKeys map[string]struct {
		Key spec.Base64Bytes `json:"key"`
	} `json:"verify_keys"`
	List []spec.Base64Bytes `json:"list"`
}

func init() {
	hx.Register("b64", "replay Base64_gen.tla records against spec.Base64Bytes", func(a *hx.Args) error {
		return hx.ReplayAll(a, func(i int, raw json.RawMessage) hx.Result { return b64Replay(raw) })
	})
}

func b64Replay(raw json.RawMessage) hx.Result {
	var r b64Rec
	if err := json.Unmarshal(raw, &r); err != nil {
		fatalf("bad record: %v", err)
	}
	var sb strings.Builder
	chars := make([]string, 0, len(r.Sp))
	for _, e := range r.Sp {
		switch e {
		case "nl":
			e = "\n"
		case "sp":
			e = " "
		}
		chars = append(chars, e)
		sb.WriteString(e)
	}
	in := sb.String()
	if r.Esc == nil {
		r.Esc = make([]string, len(chars))
		for i := range r.Esc {
			r.Esc[i] = "plain"
		}
	}
	if len(r.Esc) != len(chars) {
		fatalf("record with %d characters and %d styles", len(chars), len(r.Esc))
	}
	std := strings.Join(r.Std, "")
	want := make([]byte, len(r.Bytes))
	for i, v := range r.Bytes {
		want[i] = byte(v)
	}
	fail := func(stage, what string) hx.Result {
		return hx.Result{OK: false, Key: "C17/base64/" + r.Variant + "/" + stage, What: fmt.Sprintf("%q (bytes %v): %s", in, r.Bytes, what)}
	}
	var d spec.Base64Bytes
	err := d.Decode(in)
	var j spec.Base64Bytes
	quoted, _ := json.Marshal(in)
	jerr := json.Unmarshal(quoted, &j)
	// the JSON string as the record spells it: the same string (JSON decoding comes first), so every way in that
	// takes JSON gives what it gives for the plain spelling - whatever that is
	written := jsonSpelling(chars, r.Esc)
	var back string
	if err := json.Unmarshal(written, &back); err != nil || back != in {
		fatalf("concretiser: %s is not a JSON spelling of %q (%v)", written, in, err)
	}
	if r.EscClass != "" && r.EscClass != "plain" {
		same := func(stage string, err error, got spec.Base64Bytes) *hx.Result {
			if (err == nil) != (jerr == nil) || (err == nil && !bytes.Equal(got, j)) {
				res := hx.Result{OK: false, Key: "C17/base64/" + r.Variant + "/json-spelling/" + stage,
					What: fmt.Sprintf("the JSON string %s is the string %q written with escapes: %s gives %v, err=%v; for the plain spelling %s it gives %v, err=%v",
						written, in, stage, []byte(got), err, quoted, []byte(j), jerr)}
				return &res
			}
			return nil
		}
		var e1 spec.Base64Bytes
		if res := same("unmarshal", json.Unmarshal(written, &e1), e1); res != nil {
			return *res
		}
		var e2 spec.Base64Bytes
		if res := same("scan-json", e2.Scan(spec.RawJSON(written)), e2); res != nil {
			return *res
		}
		// inside a larger document: a struct field behind a map, and a list (the element before it is plain)
		doc := []byte(`{"list":[` + string(quoted) + `,` + string(written) + `],"verify_keys":{"ed25519:a":{"key":` + string(written) + `}}}`)
		var h b64Holder
		herr := json.Unmarshal(doc, &h)
		if res := same("in-struct", herr, h.VerifyKeys["ed25519:a"].Key); res != nil {
			return *res
		}
		if herr == nil {
			if len(h.List) != 2 {
				fatalf("concretiser: the list of %s has %d elements", doc, len(h.List))
			}
			if res := same("in-list", nil, h.List[1]); res != nil {
				return *res
			}
		}
		// a reused receiver
		e3 := spec.Base64Bytes{9, 9, 9, 9, 9, 9, 9, 9, 9}
		if res := same("unmarshal-reused", e3.UnmarshalJSON(written), e3); res != nil {
			return *res
		}
	}
	if r.Expect != "value" {
		// nothing demanded beyond not crashing
		return hx.Result{OK: true, NT: fmt.Sprintf("%s|free|decode=%v|json=%v|esc=%s", r.Variant, err == nil, jerr == nil, r.EscClass)}
	}
	if err != nil || !bytes.Equal(d, want) {
		return fail("decode", fmt.Sprintf("Decode gives %v, err=%v", []byte(d), err))
	}
	if jerr != nil || !bytes.Equal(j, want) {
		return fail("json-decode", fmt.Sprintf("UnmarshalJSON gives %v, err=%v", []byte(j), jerr))
	}
	if e := d.Encode(); e != std {
		return fail("reencode", fmt.Sprintf("re-encodes to %q, the standard unpadded spelling is %q", e, std))
	}
	out, merr := json.Marshal(d)
	if merr != nil || string(out) != `"`+std+`"` {
		return fail("json-reencode", fmt.Sprintf("MarshalJSON gives %s, err=%v", out, merr))
	}
	// the other ways in: database scan (text column, JSON column), YAML, sender IDs; and the other ways out
	var sc spec.Base64Bytes
	if err := sc.Scan(in); err != nil || !bytes.Equal(sc, want) {
		return fail("scan-string", fmt.Sprintf("Scan(string) gives %v, err=%v", []byte(sc), err))
	}
	var sj spec.Base64Bytes
	if err := sj.Scan(spec.RawJSON(quoted)); err != nil || !bytes.Equal(sj, want) {
		return fail("scan-json", fmt.Sprintf("Scan(RawJSON) gives %v, err=%v", []byte(sj), err))
	}
	var sy spec.Base64Bytes
	if err := sy.UnmarshalYAML(func(v interface{}) error { *(v.(*string)) = in; return nil }); err != nil || !bytes.Equal(sy, want) {
		return fail("yaml-decode", fmt.Sprintf("UnmarshalYAML gives %v, err=%v", []byte(sy), err))
	}
	if raw, err := spec.SenderID(in).RawBytes(); len(in) > 0 && (err != nil || !bytes.Equal(raw, want)) {
		return fail("senderid-rawbytes", fmt.Sprintf("SenderID.RawBytes gives %v, err=%v", []byte(raw), err))
	}
	if val, err := d.Value(); err != nil || val != std {
		return fail("value", fmt.Sprintf("Value gives %v, err=%v", val, err))
	}
	if y, err := d.MarshalYAML(); err != nil || y != std {
		return fail("yaml-reencode", fmt.Sprintf("MarshalYAML gives %v, err=%v", y, err))
	}
	// a receiver that already holds another value, or saw a failed decode, gives the same result
	reused := spec.Base64Bytes{1, 2, 3, 4, 5, 6, 7}
	_ = reused.Decode("!!")
	if err := reused.Decode(in); err != nil || !bytes.Equal(reused, want) {
		return fail("reused-receiver", fmt.Sprintf("Decode into a used receiver gives %v, err=%v", []byte(reused), err))
	}
	// re-encoding decodes to the same value again
	var again spec.Base64Bytes
	if err := again.Decode(d.Encode()); err != nil || !bytes.Equal(again, want) {
		return fail("roundtrip", "the re-encoded value does not decode to the same bytes")
	}
	special := "plain"
	if strings.ContainsAny(in, "+/") {
		special = "std-special"
	} else if strings.ContainsAny(in, "-_") {
		special = "url-special"
	}
	return hx.Result{OK: true, NT: fmt.Sprintf("%s|value|len=%d|%s|esc=%s", r.Variant, len(want), special, r.EscClass)}
}
