package main

// Replays Base64_gen.tla records through spec.Base64Bytes (Decode / Encode / JSON).

import (
	"bytes"
	"encoding/json"
	"fmt"
	"strings"

	"github.com/matrix-org/gomatrixserverlib/spec"
	"verifharness/hx"
)

type b64Rec struct {
	Variant string   `json:"variant"`
	Bytes   []int    `json:"bytes"`
	Sp      []string `json:"sp"`
	Std     []string `json:"std"`
	Expect  string   `json:"expect"`
}

func init() {
	hx.Register("b64", "replay Base64_gen.tla records against spec.Base64Bytes", func(a *hx.Args) error {
		return hx.ReplayAll(a, func(i int, raw json.RawMessage) hx.Result { return b64Replay(raw) })
	})
}

func b64Replay(raw json.RawMessage) hx.Result {
	var r b64Rec
	if err := json.Unmarshal(raw, &r); err != nil {
		fatalf("bad record: %v", err)
	}
	in := strings.Join(r.Sp, "")
	std := strings.Join(r.Std, "")
	want := make([]byte, len(r.Bytes))
	for i, v := range r.Bytes {
		want[i] = byte(v)
	}
	fail := func(stage, what string) hx.Result {
		return hx.Result{OK: false, Key: "C17/base64/" + r.Variant + "/" + stage, What: fmt.Sprintf("%q (bytes %v): %s", in, r.Bytes, what)}
	}
	var d spec.Base64Bytes
	err := d.Decode(in)
	var j spec.Base64Bytes
	quoted, _ := json.Marshal(in)
	jerr := json.Unmarshal(quoted, &j)
	if r.Expect != "value" {
		// nothing demanded beyond not crashing
		return hx.Result{OK: true, NT: fmt.Sprintf("%s|free|decode=%v|json=%v", r.Variant, err == nil, jerr == nil)}
	}
	if err != nil || !bytes.Equal(d, want) {
		return fail("decode", fmt.Sprintf("Decode gives %v, err=%v", []byte(d), err))
	}
	if jerr != nil || !bytes.Equal(j, want) {
		return fail("json-decode", fmt.Sprintf("UnmarshalJSON gives %v, err=%v", []byte(j), jerr))
	}
	if e := d.Encode(); e != std {
		return fail("reencode", fmt.Sprintf("re-encodes to %q, the standard unpadded spelling is %q", e, std))
	}
	out, merr := json.Marshal(d)
	if merr != nil || string(out) != `"`+std+`"` {
		return fail("json-reencode", fmt.Sprintf("MarshalJSON gives %s, err=%v", out, merr))
	}
	// re-encoding decodes to the same value again
	var again spec.Base64Bytes
	if err := again.Decode(d.Encode()); err != nil || !bytes.Equal(again, want) {
		return fail("roundtrip", "the re-encoded value does not decode to the same bytes")
	}
	special := "plain"
	if strings.ContainsAny(in, "+/") {
		special = "std-special"
	} else if strings.ContainsAny(in, "-_") {
		special = "url-special"
	}
	return hx.Result{OK: true, NT: fmt.Sprintf("%s|value|len=%d|%s", r.Variant, len(want), special)}
}
