// Command c17 binds spec/Ident.tla, spec/Base64_gen.tla, spec/Limits.tla and spec/VersionTable.tla
// (property C17: identifiers, size limits and per-version traits) to the real gomatrixserverlib.
//
//	c17 ident  -in records.ndjson -mode us|uh|rm|sn|split   identifier grammars
//	c17 b64    -in records.ndjson                           spec.Base64Bytes codec
//	c17 limits -in records.ndjson                           event size / field-length limits
//	c17 table  -in records.ndjson                           room-version trait matrix
package main

import (
	"fmt"
	"os"

	"verifharness/hx"
)

func main() { hx.Main() }

// fatalf reports a fault of the harness itself (unfaithful concretisation): the process exits with a
// non-zero status, which the driver turns into a machinery error (never a verdict).
func fatalf(format string, a ...interface{}) {
	fmt.Fprintf(os.Stderr, "c17 harness fault: "+format+"\n", a...)
	os.Exit(3)
}
