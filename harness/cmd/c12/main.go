// Command c12 binds spec/KeyRing.tla and spec/KeyResponse.tla to the real key ring of gomatrixserverlib.
//
//	c12 c12ring -in records.ndjson    replay KeyRing_gen scenarios into a real KeyRing with scripted
//	                                  KeyDatabase / KeyFetchers (spec -> code)
//	c12 c12resp -in records.ndjson    replay KeyResponse_gen scenarios: CheckKeys, ServerKeys.PublicKey, real
//	                                  DirectKeyFetcher / PerspectiveKeyFetcher over a scripted KeyClient
//	c12 c12rec  -out trace.ndjson     seeded random batches through a real KeyRing, logged as stage traces
//	                                  (code -> spec; validated by KeyRing_trace.tla); with -in it re-runs
//	                                  the scenarios of the given file instead of drawing new ones
package main

import (
	"io"

	"github.com/sirupsen/logrus"

	"verifharness/hx"
)

func main() {
	// the key ring warns through logrus about every key it could not fetch
	logrus.SetOutput(io.Discard)
	hx.Main()
}
