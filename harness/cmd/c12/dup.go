package main

// A top-level member of a key response written twice (KeyResponse.tla, "a member written twice"):
// concretiser (the JSON text as it arrives, with the smuggled copy spliced in) and replay of the dup*
// modes of KeyResponse_gen.tla against CheckKeys, the real DirectKeyFetcher / PerspectiveKeyFetcher and a
// real KeyRing over them.
//
// The scripted client decodes the text exactly as fclient does: a response that does not decode is an
// error of GetServerKeys, and an entry of a /key/v2/query answer that does not decode is left out.

import (
	"bytes"
	"context"
	"crypto/ed25519"
	"crypto/sha256"
	"encoding/json"
	"fmt"
	"sort"
	"strings"
	"sync"

	gmsl "github.com/matrix-org/gomatrixserverlib"
	"github.com/matrix-org/gomatrixserverlib/spec"

	"verifharness/hx"
)

const farTS = 9000 // FarTS of KeyResponse.tla (hours)

func mustJSON(v interface{}) json.RawMessage {
	b, err := json.Marshal(v)
	if err != nil {
		panic(err)
	}
	return b
}

// smuggle takes the response as its origin (and the notary) signed it and writes the member the scenario
// names a second time.  Nothing of the signed text is touched, except that the relay's own signature
// (made over the reading the signatures cover: every member as its last copy says) is added to the
// signatures member where the scenario says so - that member is not covered by any signature.
func (rc *respCtx) smuggle(r Resp, msg []byte) []byte {
	var gen map[string]json.RawMessage
	if err := json.Unmarshal(msg, &gen); err != nil {
		panic(err)
	}
	d := r.Dup
	name := string(serverName(r.Name))
	x := keyFor(rc.seed, r.Name, "X")
	kx := edKeyID("kx")
	xkey := map[string]interface{}{"key": spec.Base64Bytes(x.pub)}
	xold := map[string]interface{}{"key": spec.Base64Bytes(x.pub), "expired_ts": rc.ms(farTS)}
	var smug json.RawMessage
	switch d.M + "/" + d.C {
	case "verify_keys/evil", "verify_keys/evilnosig":
		smug = mustJSON(map[string]interface{}{string(kx): xkey})
	case "verify_keys/sameid":
		smug = mustJSON(map[string]interface{}{string(edKeyID("k1")): xkey})
	case "verify_keys/empty", "old_verify_keys/empty":
		smug = json.RawMessage(`{}`)
	case "old_verify_keys/evil":
		smug = mustJSON(map[string]interface{}{string(kx): xold})
	case "old_verify_keys/sameid":
		smug = mustJSON(map[string]interface{}{string(edKeyID("k0")): xold})
	case "server_name/other":
		other := "s1"
		if r.Name == "s1" {
			other = "s2"
		}
		smug = mustJSON(string(serverName(other)))
	case "valid_until_ts/future":
		smug = mustJSON(rc.ms(48))
	case "valid_until_ts/past":
		smug = mustJSON(rc.ms(-24))
	case "signatures/attacker":
		// filled in below
	default:
		panic("unknown dup " + d.M + "/" + d.C)
	}
	if _, ok := gen[d.M]; !ok {
		panic("the genuine response lacks member " + d.M)
	}
	if d.M == "signatures" || (d.M == "verify_keys" && d.C == "evil") {
		covered := map[string]json.RawMessage{}
		for k, v := range gen {
			covered[k] = v
		}
		if d.Pos == "after" && d.M != "signatures" {
			covered[d.M] = smug
		}
		signed, err := gmsl.SignJSON(name, kx, x.priv, mustJSON(covered))
		if err != nil {
			panic(err)
		}
		var so map[string]json.RawMessage
		if err = json.Unmarshal(signed, &so); err != nil {
			panic(err)
		}
		if d.M == "signatures" {
			var sigs map[string]map[string]string
			if err = json.Unmarshal(so["signatures"], &sigs); err != nil {
				panic(err)
			}
			smug = mustJSON(map[string]interface{}{name: map[string]string{string(kx): sigs[name][string(kx)]}})
		} else {
			gen["signatures"] = so["signatures"] // the genuine signatures and the relay's
		}
	}

	// layout and spelling of the smuggled copy: next to the genuine one or at the far end of the object;
	// its name written plainly or with an escape (the same name to every JSON reader)
	h := sha256.Sum256([]byte(fmt.Sprintf("%d|%s|%s|%s|%d|%d|%s", rc.seed, d.M, d.Pos, d.C, len(r.VKeys), len(r.Old), r.NSig)))
	far, escaped := h[0]&1 == 1, h[1]&1 == 1
	smugName := `"` + d.M + `"`
	if escaped {
		smugName = fmt.Sprintf(`"\u%04x%s"`, d.M[0], d.M[1:])
	}
	member := func(n string, v json.RawMessage) string { return n + ":" + string(v) }
	names := make([]string, 0, len(gen))
	for k := range gen {
		names = append(names, k)
	}
	sort.Strings(names)
	var parts []string
	if far && d.Pos == "before" {
		parts = append(parts, member(smugName, smug))
	}
	for _, k := range names {
		if k == d.M && !far && d.Pos == "before" {
			parts = append(parts, member(smugName, smug))
		}
		parts = append(parts, member(string(mustJSON(k)), gen[k]))
		if k == d.M && !far && d.Pos == "after" {
			parts = append(parts, member(smugName, smug))
		}
	}
	if far && d.Pos == "after" {
		parts = append(parts, member(smugName, smug))
	}
	out := []byte("{" + strings.Join(parts, ",") + "}")
	if !json.Valid(out) {
		panic("smuggle produced invalid JSON: " + string(out))
	}
	return out
}

// memDB is an empty key database that remembers what is stored.
type memDB struct {
	mu     sync.Mutex
	stored map[gmsl.PublicKeyLookupRequest]gmsl.PublicKeyLookupResult
}

func (d *memDB) FetcherName() string { return "empty database" }
func (d *memDB) FetchKeys(context.Context, map[gmsl.PublicKeyLookupRequest]spec.Timestamp) (map[gmsl.PublicKeyLookupRequest]gmsl.PublicKeyLookupResult, error) {
	return map[gmsl.PublicKeyLookupRequest]gmsl.PublicKeyLookupResult{}, nil
}
func (d *memDB) StoreKeys(_ context.Context, res map[gmsl.PublicKeyLookupRequest]gmsl.PublicKeyLookupResult) error {
	d.mu.Lock()
	defer d.mu.Unlock()
	if d.stored == nil {
		d.stored = map[gmsl.PublicKeyLookupRequest]gmsl.PublicKeyLookupResult{}
	}
	for k, v := range res {
		d.stored[k] = v
	}
	return nil
}

func tablesEqual(a, b Table) bool {
	if len(a) != len(b) {
		return false
	}
	for k, v := range a {
		if w, ok := b[k]; !ok || w != v {
			return false
		}
	}
	return true
}

// dupOf finds the response of the scenario that writes a member twice and says on which way it came.
func dupOf(rec *RespRec) (Resp, string) {
	switch rec.Mode {
	case "dupcheck":
		return rec.R, "check"
	case "duppersp":
		for _, r := range rec.P.Rs {
			if r.hasDup() {
				return r, "perspective"
			}
		}
	case "dupring":
		if rec.Via == "persp" {
			for _, r := range rec.P.Rs {
				if r.hasDup() {
					return r, "ring-perspective"
				}
			}
		}
		return rec.D.R, "ring-direct"
	}
	if rec.D.Kind == "resp" && rec.D.R.hasDup() {
		return rec.D.R, "direct-own-answer"
	}
	for _, r := range rec.N.Rs {
		if r.hasDup() {
			return r, "direct-notary-fallback"
		}
	}
	panic("no response with a member written twice in a dup scenario")
}

// tableClass names how a table differs from the one the covered reading yields.
func tableClass(want, got Table) string {
	extra, relay, missing := false, false, false
	for k, e := range got {
		if _, ok := want[k]; !ok {
			extra = true
			if e.Key == "X" {
				relay = true
			}
		} else if want[k] != e && e.Key == "X" {
			relay = true
		}
	}
	for k := range want {
		if _, ok := got[k]; !ok {
			missing = true
		}
	}
	switch {
	case relay:
		return "relay-key-handed-out"
	case extra:
		return "unsigned-keys-handed-out"
	case missing:
		return "keys-missing"
	}
	return "entry-differs"
}

func replayDup(rc *respCtx, rec *RespRec) hx.Result {
	seed := rc.seed
	dr, where := dupOf(rec)
	kind := dr.Dup.M + "-" + dr.Dup.Pos + "-" + dr.Dup.C
	fail := func(class, what string, got interface{}) hx.Result {
		return hx.Result{OK: false, Key: "C12/resp/dup/" + kind + "/" + where + "/" + class,
			What: "a key response that writes " + dr.Dup.M + " twice (smuggled copy " + dr.Dup.Pos + " the genuine one: " + dr.Dup.C + "): " + what +
				"; wire: " + string(rc.wire(dr)),
			Want: rec.Alts, Got: got}
	}
	pass := func(pols []string, n int) hx.Result {
		return hx.Result{OK: true, NT: fmt.Sprintf("%s|%s|%s|%d", rec.Mode, kind, strings.Join(pols, "+"), n)}
	}
	if len(rec.Alts) == 0 {
		panic("dup record without alternatives")
	}
	fetcher := func(via string) gmsl.KeyFetcher {
		if via == "persp" {
			cl := &scriptedClient{rc: rc, lookup: map[string]ListScript{"notary": rec.P}}
			return &gmsl.PerspectiveKeyFetcher{PerspectiveServerName: spec.ServerName(notaryName()),
				PerspectiveServerKeys: map[gmsl.KeyID]ed25519.PublicKey{notaryKeyID(): keyFor(seed, "notary", "P1").pub},
				Client:                cl}
		}
		cl := &scriptedClient{rc: rc, direct: map[string]DirectScript{"s1": rec.D}, lookup: map[string]ListScript{"s1": rec.N}}
		return &gmsl.DirectKeyFetcher{Client: cl,
			IsLocalServerName: func(s spec.ServerName) bool { return s == serverName("s0") },
			LocalPublicKey:    spec.Base64Bytes(keyFor(seed, "s0", "L").pub)}
	}
	switch rec.Mode {
	case "dupcheck":
		sk, err := rc.build(rec.R)
		if err != nil {
			return pass([]string{"drop"}, 0)
		}
		now := rc.nowAt(rec.Now)
		checks, keys := gmsl.CheckKeys(serverName(rec.Expected), now, sk)
		var gk []KidKey
		for id, k := range keys {
			n := "?"
			for _, c := range []string{"A0", "A1", "A2", "X", "imposter"} {
				if bytes.Equal(keyFor(seed, rec.R.Name, c).pub, k) {
					n = c
				}
			}
			gk = append(gk, KidKey{abstractKid(id), n})
		}
		sort.Slice(gk, func(i, j int) bool { return gk[i].Kid < gk[j].Kid })
		var pols []string
		for _, a := range rec.Alts {
			wk := append([]KidKey{}, a.Keys...)
			sort.Slice(wk, func(i, j int) bool { return wk[i].Kid < wk[j].Kid })
			if a.All == checks.AllChecksOK && fmt.Sprint(wk) == fmt.Sprint(gk) {
				pols = append(pols, a.Pol)
			}
		}
		if len(pols) == 0 {
			class := "checks-pass"
			for _, k := range gk {
				if k.Key == "X" {
					class = "relay-key-handed-out"
				}
			}
			if !checks.AllChecksOK {
				class = "checks-fail"
			}
			return fail(class, fmt.Sprintf("AllChecksOK=%v, keys %v", checks.AllChecksOK, gk),
				map[string]interface{}{"all": checks.AllChecksOK, "keys": gk})
		}
		return pass(pols, len(gk))
	case "dupdirect", "duppersp":
		via := "direct"
		reqs := map[gmsl.PublicKeyLookupRequest]spec.Timestamp{lookupReq("s1/k1"): rc.ms(-48)}
		if rec.Mode == "duppersp" {
			via = "persp"
			reqs[lookupReq("s2/k1")] = rc.ms(-48)
		}
		res, err := fetcher(via).FetchKeys(context.Background(), reqs)
		got := rc.abstractTable(res)
		var pols []string
		for _, a := range rec.Alts {
			if tablesEqual(edOnly(a.Tab), got) {
				pols = append(pols, a.Pol)
			}
		}
		if len(pols) == 0 {
			return fail(tableClass(edOnly(rec.Alts[0].Tab), got),
				fmt.Sprintf("the fetcher handed out %v; the reading its signatures cover yields %v", got, edOnly(rec.Alts[0].Tab)),
				map[string]interface{}{"tab": got, "err": err != nil})
		}
		return pass(pols, len(got))
	case "dupring":
		db := &memDB{}
		ring := gmsl.KeyRing{KeyFetchers: []gmsl.KeyFetcher{fetcher(rec.Via)}, KeyDatabase: db}
		msg, err := gmsl.SignJSON(string(serverName("s1")), edKeyID(rec.Q.Kid), keyFor(seed, "s1", rec.Q.By).priv,
			[]byte(`{"type":"m.room.message","content":{"body":"hello"}}`))
		if err != nil {
			panic(err)
		}
		out, err := ring.VerifyJSONs(context.Background(), []gmsl.VerifyJSONRequest{{
			ServerName: serverName("s1"), AtTS: rc.ms(rec.Q.TS), Message: msg,
			ValidityCheckingFunc: gmsl.StrictValiditySignatureCheck}})
		verdict := "fail"
		switch {
		case err != nil:
			verdict = "toperr"
		case len(out) != 1:
			verdict = fmt.Sprintf("%d-results", len(out))
		case out[0].Error == nil:
			verdict = "ok"
		}
		stored := rc.abstractTable(db.stored)
		var pols, verdictOnly []string
		for _, a := range rec.Alts {
			if a.Res == verdict {
				verdictOnly = append(verdictOnly, a.Pol)
				if tablesEqual(edOnly(a.Tab), stored) {
					pols = append(pols, a.Pol)
				}
			}
		}
		got := map[string]interface{}{"verdict": verdict, "stored": stored}
		if len(verdictOnly) == 0 {
			class := "message-refused"
			if verdict == "ok" {
				class = "message-accepted/signed-by-" + rec.Q.By + "-as-" + rec.Q.Kid
			}
			return fail(class, fmt.Sprintf("a message of s1 signed with %s under ID %s was judged %q; keys stored: %v", rec.Q.By, rec.Q.Kid, verdict, stored), got)
		}
		if len(pols) == 0 {
			return fail("stored/"+tableClass(edOnly(rec.Alts[0].Tab), stored),
				fmt.Sprintf("the key ring stored %v; the reading the signatures cover yields %v", stored, edOnly(rec.Alts[0].Tab)), got)
		}
		return pass(pols, len(stored))
	}
	panic("unknown mode " + rec.Mode)
}
