package main

// c12resp: spec -> code replay of KeyResponse_gen records: CheckKeys, ServerKeys.PublicKey, and the real
// DirectKeyFetcher / PerspectiveKeyFetcher over a scripted KeyClient that returns really signed or
// mis-signed ServerKeys built with real ed25519 keys.  The responses are produced as JSON text and decoded
// the way fclient decodes them; dup.go writes a top-level member a second time into that text.

import (
	"bytes"
	"context"
	"crypto/ed25519"
	"encoding/json"
	"fmt"
	"sort"
	"strings"
	"sync"
	"time"

	gmsl "github.com/matrix-org/gomatrixserverlib"
	"github.com/matrix-org/gomatrixserverlib/spec"

	"verifharness/hx"
)

type VKey struct {
	Kid  string `json:"kid"`
	Alg  string `json:"alg"`
	Key  string `json:"key"`
	Size string `json:"size"`
	Sig  string `json:"sig"`
}

type OldKey struct {
	Kid string `json:"kid"`
	Key string `json:"key"`
	Exp int64  `json:"exp"`
}

// Dup says that whoever relayed the response wrote one top-level member a second time: which member (M),
// the smuggled copy "before" or "after" the genuine one (Pos), and what the smuggled copy holds (C);
// see KeyResponse.tla, "a member written twice".
type Dup struct {
	M   string `json:"m"`
	Pos string `json:"pos"`
	C   string `json:"c"`
}

type Resp struct {
	Name  string   `json:"name"`
	VU    int64    `json:"vu"`
	VKeys []VKey   `json:"vkeys"`
	Old   []OldKey `json:"old"`
	NSig  string   `json:"nsig"`
	Dup   Dup      `json:"dup"`
}

func (r Resp) hasDup() bool { return r.Dup.M != "" && r.Dup.M != "none" }

// Ask is the message a key ring is asked to verify in the end-to-end scenarios: signed by s1 under key
// ID Kid with key By, to be valid at TS.
type Ask struct {
	Kid string `json:"kid"`
	By  string `json:"by"`
	TS  int64  `json:"ts"`
}

// Alt is what the specification derives for one of the things an implementation may do with a response
// that writes a member twice ("lastwins" | "refuse" | "drop").
type Alt struct {
	Pol   string       `json:"pol"`
	Tab   Table        `json:"tab"`
	Calls []ClientCall `json:"calls"`
	All   bool         `json:"all"`
	Keys  []KidKey     `json:"keys"`
	Res   string       `json:"res"`
}

type DirectScript struct {
	Kind string `json:"kind"`
	R    Resp   `json:"r"`
}

type ListScript struct {
	Kind string `json:"kind"`
	Rs   []Resp `json:"rs"`
}

type EdCheck struct {
	Kid   string `json:"kid"`
	Valid bool   `json:"valid"`
	Match bool   `json:"match"`
}

type ChecksRec struct {
	Name   bool      `json:"name"`
	Future bool      `json:"future"`
	HasEd  bool      `json:"hased"`
	EdOK   bool      `json:"edok"`
	All    bool      `json:"all"`
	Ed     []EdCheck `json:"ed"`
}

type KidKey struct {
	Kid string `json:"kid"`
	Key string `json:"key"`
}

type ClientCall struct {
	Op  string `json:"op"`
	Srv string `json:"srv"`
}

type RespRec struct {
	Mode     string       `json:"mode"`
	Expected string       `json:"expected"`
	Now      int64        `json:"now"`
	R        Resp         `json:"r"`
	Checks   ChecksRec    `json:"checks"`
	Keys     []KidKey     `json:"keys"`
	Kid      string       `json:"kid"`
	TS       int64        `json:"ts"`
	Key      string       `json:"key"`
	D        DirectScript `json:"d"`
	N        ListScript   `json:"n"`
	Srv2     bool         `json:"srv2"`
	Local    bool         `json:"local"`
	P        ListScript   `json:"p"`
	Tab      Table        `json:"tab"`
	Calls    []ClientCall `json:"calls"`
	Via      string       `json:"via"`
	Q        Ask          `json:"q"`
	Alts     []Alt        `json:"alts"`
}

func notaryName() string      { return string(serverName("notary")) }
func notaryKeyID() gmsl.KeyID { return edKeyID("p1") }

func init() {
	hx.Register("c12resp", "replay KeyResponse_gen records against CheckKeys / PublicKey / the real fetchers", func(a *hx.Args) error {
		setVocab(a.Seed)
		return hx.ReplayAll(a, func(i int, raw json.RawMessage) hx.Result {
			var rec RespRec
			if err := json.Unmarshal(raw, &rec); err != nil {
				panic(err)
			}
			return replayResp(&rec, a.Seed, i)
		})
	})
}

type respCtx struct {
	seed int64
	base int64
}

func (rc *respCtx) ms(h int64) spec.Timestamp {
	if h == noTS {
		return 0
	}
	return spec.Timestamp(rc.base + h*hourMS)
}

func (rc *respCtx) nowAt(h int64) time.Time { return time.UnixMilli(rc.base + h*hourMS) }

func respKeyID(kid, alg string) gmsl.KeyID {
	if alg != "" && alg != "ed25519" {
		return gmsl.KeyID("rsa:" + kid)
	}
	return edKeyID(kid)
}

// build realises an abstract response as ServerKeys: really signed where the model says "good",
// signed with another key where it says "bad".  A response that does not decode (only one that writes a
// member twice can fail to) is reported as the error json.Unmarshal gave.
func (rc *respCtx) build(r Resp) (gmsl.ServerKeys, error) {
	var sk gmsl.ServerKeys
	err := json.Unmarshal(rc.wire(r), &sk)
	if err != nil && !r.hasDup() {
		panic(err)
	}
	return sk, err
}

// wire is the JSON text of the response as it arrives.
func (rc *respCtx) wire(r Resp) []byte {
	name := string(serverName(r.Name))
	verify := map[string]interface{}{}
	for _, k := range r.VKeys {
		pub := []byte(keyFor(rc.seed, r.Name, k.Key).pub)
		if k.Size != "ok" {
			pub = pub[:31]
		}
		verify[string(respKeyID(k.Kid, k.Alg))] = map[string]interface{}{"key": spec.Base64Bytes(pub)}
	}
	old := map[string]interface{}{}
	for _, k := range r.Old {
		oid := edKeyID(k.Kid)
		if k.Kid == "rsa" {
			oid = respKeyID(k.Kid, "rsa")
		}
		old[string(oid)] = map[string]interface{}{
			"key":        spec.Base64Bytes(keyFor(rc.seed, r.Name, k.Key).pub),
			"expired_ts": rc.ms(k.Exp),
		}
	}
	body := map[string]interface{}{
		"server_name":     name,
		"valid_until_ts":  rc.ms(r.VU),
		"verify_keys":     verify,
		"old_verify_keys": old,
	}
	// members that must have no effect (they are covered by the signatures like everything else)
	switch (rc.seed + int64(len(r.VKeys)) + int64(len(r.Old))) % 3 {
	case 1:
		body["tls_fingerprints"] = []interface{}{map[string]string{"sha256": "I2ohBnqpb5m3HldWFwyA10WdjqDksukiKVUdZ690WzM"}}
	case 2:
		body["org.example.unknown"] = map[string]interface{}{"expired_ts": 1, "valid_until_ts": 2, "key": "x"}
		if len(r.Old) == 0 && !r.hasDup() {
			delete(body, "old_verify_keys") // absent instead of empty
		}
	}
	msg, err := json.Marshal(body)
	if err != nil {
		panic(err)
	}
	for _, k := range r.VKeys {
		id := respKeyID(k.Kid, k.Alg)
		if r.Name == "notary" && k.Kid == "p1" {
			// notary = origin: ONE signature under the notary's key ID plays both roles
			signer := "imposter"
			if r.NSig == "good" {
				signer = "P1"
			} else if k.Sig == "good" {
				signer = k.Key
			}
			if msg, err = gmsl.SignJSON(name, id, keyFor(rc.seed, "notary", signer).priv, msg); err != nil {
				panic(err)
			}
			continue
		}
		switch k.Sig {
		case "good":
			msg, err = gmsl.SignJSON(name, id, keyFor(rc.seed, r.Name, k.Key).priv, msg)
		case "bad":
			msg, err = gmsl.SignJSON(name, id, keyFor(rc.seed, r.Name, "imposter").priv, msg)
		}
		if err != nil {
			panic(err)
		}
	}
	nsig := r.NSig
	if r.Name == "notary" {
		nsig = "" // already placed above
	}
	switch nsig {
	case "good":
		msg, err = gmsl.SignJSON(notaryName(), notaryKeyID(), keyFor(rc.seed, "notary", "P1").priv, msg)
	case "bad":
		msg, err = gmsl.SignJSON(notaryName(), notaryKeyID(), keyFor(rc.seed, "notary", "imposter").priv, msg)
	case "unknown":
		msg, err = gmsl.SignJSON(notaryName(), "ed25519:px", keyFor(rc.seed, "notary", "PX").priv, msg)
	}
	if err != nil {
		panic(err)
	}
	if r.hasDup() {
		return rc.smuggle(r, msg)
	}
	return msg
}

// why the specification does not accept a response (canonical reasons)
func rejectReasons(r Resp, expected string, viaNotary bool) []string {
	var out []string
	if r.Name != expected {
		out = append(out, "names-another-server")
	}
	if r.VU <= 0 {
		out = append(out, "past-valid-until")
	}
	hased := false
	for _, k := range r.VKeys {
		if k.Alg == "ed25519" {
			hased = true
			if k.Size != "ok" {
				out = append(out, "malformed-key")
			} else if k.Sig != "good" {
				out = append(out, "self-signature-"+k.Sig)
			}
		}
	}
	if !hased {
		out = append(out, "no-ed25519-key")
	}
	if viaNotary && r.NSig != "good" {
		out = append(out, "notary-signature-"+r.NSig)
	}
	sort.Strings(out)
	return out
}

type scriptedClient struct {
	rc     *respCtx
	direct map[string]DirectScript // by abstract server
	lookup map[string]ListScript   // by abstract notary / server
	mu     sync.Mutex
	calls  []ClientCall
}

func (c *scriptedClient) GetServerKeys(_ context.Context, s spec.ServerName) (gmsl.ServerKeys, error) {
	a := abstractServer(s)
	c.mu.Lock()
	c.calls = append(c.calls, ClientCall{"get", a})
	c.mu.Unlock()
	d, ok := c.direct[a]
	if ok && d.Kind == "empty" {
		return gmsl.ServerKeys{}, nil // nothing, but no error either
	}
	if !ok || d.Kind != "resp" {
		return gmsl.ServerKeys{}, errScripted
	}
	// as fclient.GetServerKeys: a body that does not decode is an error
	return c.rc.build(d.R)
}

func (c *scriptedClient) LookupServerKeys(_ context.Context, s spec.ServerName, _ map[gmsl.PublicKeyLookupRequest]spec.Timestamp) ([]gmsl.ServerKeys, error) {
	a := abstractServer(s)
	c.mu.Lock()
	c.calls = append(c.calls, ClientCall{"lookup", a})
	c.mu.Unlock()
	l, ok := c.lookup[a]
	if !ok || l.Kind != "list" {
		return nil, errScripted
	}
	var out []gmsl.ServerKeys
	for _, r := range l.Rs {
		// as fclient.LookupServerKeys: an entry that does not decode is left out
		if sk, err := c.rc.build(r); err == nil {
			out = append(out, sk)
		}
	}
	return out, nil
}

// abstractTable projects fetcher results to the abstract vocabulary (ed25519 key IDs only).
func (rc *respCtx) abstractTable(res map[gmsl.PublicKeyLookupRequest]gmsl.PublicKeyLookupResult) Table {
	t := Table{}
	for q, v := range res {
		if !strings.HasPrefix(string(q.KeyID), "ed25519:") {
			continue
		}
		srv := abstractServer(q.ServerName)
		e := Entry{Key: "?"}
		for _, n := range []string{"A0", "A1", "A2", "L", "P1", "PX", "R", "X", "imposter"} {
			if bytes.Equal(keyFor(rc.seed, srv, n).pub, v.Key) {
				e.Key = n
			}
		}
		hours := func(ts spec.Timestamp) int64 {
			if ts == 0 {
				return noTS
			}
			d := int64(ts) - rc.base
			if d%hourMS != 0 {
				if d > 10*365*24*hourMS {
					return 99999
				}
				return -1
			}
			if d > 10*365*24*hourMS {
				return 99999
			}
			return d / hourMS
		}
		e.VU, e.Exp = hours(v.ValidUntilTS), hours(v.ExpiredTS)
		t[srv+"/"+abstractKid(q.KeyID)] = e
	}
	return t
}

func edOnly(t Table) Table {
	out := Table{}
	for k, e := range t {
		if strings.HasSuffix(k, "/rsa") {
			continue
		}
		out[k] = e
	}
	return out
}

// tableDiff names the difference between the table the specification derives and the one the fetcher
// returned.  When a response whose only flaw is a valid_until_ts in the past explains it, the key says so.
func tableDiff(want, got Table, responses []Resp, viaNotary bool) (string, string) {
	var extra, missing, differ []string
	for k := range got {
		if _, ok := want[k]; !ok {
			extra = append(extra, k)
		} else if want[k] != got[k] {
			differ = append(differ, k)
		}
	}
	for k := range want {
		if _, ok := got[k]; !ok {
			missing = append(missing, k)
		}
	}
	sort.Strings(extra)
	sort.Strings(missing)
	sort.Strings(differ)
	if len(extra)+len(missing)+len(differ) == 0 {
		return "", ""
	}
	reasons := map[string]bool{}
	onlyPast := false
	for _, r := range responses {
		rs := rejectReasons(r, srvOr(r.Name, "s1", viaNotary), viaNotary)
		if len(rs) == 1 && rs[0] == "past-valid-until" {
			onlyPast = true
		}
		for _, x := range rs {
			reasons[x] = true
		}
	}
	if (len(extra) > 0 || len(differ) > 0) && onlyPast {
		return "accepted/past-valid-until", fmt.Sprintf("a response whose valid_until_ts is in the past was accepted: unexpected %v, differing %v", extra, differ)
	}
	var rs []string
	for x := range reasons {
		rs = append(rs, x)
	}
	sort.Strings(rs)
	switch {
	case len(extra) > 0:
		return "unexpected-keys/" + strings.Join(rs, "+"), fmt.Sprintf("keys %v were handed out from a response the specification does not accept", extra)
	case len(missing) > 0:
		return "missing-keys", fmt.Sprintf("keys %v of an acceptable response were not returned", missing)
	}
	return "entry-differs", fmt.Sprintf("entries differ for %v", differ)
}

func srvOr(name, srv string, viaNotary bool) string {
	if viaNotary {
		return name
	}
	return srv
}

func replayResp(rec *RespRec, seed int64, idx int) hx.Result {
	rc := &respCtx{seed: seed, base: time.Now().UnixMilli()}
	fail := func(detail, what string, want, got interface{}) hx.Result {
		return hx.Result{OK: false, Key: "C12/resp/" + rec.Mode + "/" + detail, What: what, Want: want, Got: got}
	}
	switch rec.Mode {
	case "dupcheck", "dupdirect", "duppersp", "dupring":
		return replayDup(rc, rec)
	case "check":
		sk, _ := rc.build(rec.R)
		now := rc.nowAt(rec.Now)
		checks, keys := gmsl.CheckKeys(serverName(rec.Expected), now, sk)
		got := ChecksRec{Name: checks.MatchingServerName, Future: checks.FutureValidUntilTS, HasEd: checks.HasEd25519Key, All: checks.AllChecksOK}
		for id, c := range checks.Ed25519Checks {
			got.Ed = append(got.Ed, EdCheck{abstractKid(id), c.ValidEd25519, c.MatchingSignature})
		}
		sort.Slice(got.Ed, func(i, j int) bool { return got.Ed[i].Kid < got.Ed[j].Kid })
		want := rec.Checks
		sort.Slice(want.Ed, func(i, j int) bool { return want.Ed[i].Kid < want.Ed[j].Kid })
		switch {
		case got.All != want.All:
			return fail("all/"+strings.Join(rejectReasons(rec.R, rec.Expected, false), "+"), fmt.Sprintf("AllChecksOK: want %v got %v", want.All, got.All), want, got)
		case got.Name != want.Name:
			return fail("matching-server-name", "MatchingServerName differs", want, got)
		case got.Future != want.Future:
			return fail("future-valid-until/vu-"+rel(rec.R.VU, rec.Now)+"-now", "FutureValidUntilTS differs", want, got)
		case got.HasEd != want.HasEd:
			return fail("has-ed25519-key", "HasEd25519Key differs", want, got)
		case fmt.Sprint(got.Ed) != fmt.Sprint(want.Ed):
			return fail("ed25519-checks", "per-key checks differ", want, got)
		}
		var gk []KidKey
		for id, k := range keys {
			name := "?"
			for _, n := range []string{"A0", "A1", "A2", "imposter"} {
				if bytes.Equal(keyFor(seed, rec.R.Name, n).pub, k) {
					name = n
				}
			}
			gk = append(gk, KidKey{abstractKid(id), name})
		}
		sort.Slice(gk, func(i, j int) bool { return gk[i].Kid < gk[j].Kid })
		wk := append([]KidKey{}, rec.Keys...)
		sort.Slice(wk, func(i, j int) bool { return wk[i].Kid < wk[j].Kid })
		if fmt.Sprint(gk) != fmt.Sprint(wk) {
			return fail("returned-keys", "keys handed back differ", wk, gk)
		}
		return hx.Result{OK: true, NT: fmt.Sprintf("check|%v|%v|%v|%v|%d", got.All, got.Name, got.Future, got.HasEd, len(got.Ed))}
	case "pubkey":
		sk, _ := rc.build(rec.R)
		k := sk.PublicKey(edKeyID(rec.Kid), rc.ms(rec.TS))
		got := "-"
		if k != nil {
			got = "?"
			for _, n := range []string{"A0", "A1", "A2"} {
				if bytes.Equal(keyFor(seed, rec.R.Name, n).pub, k) {
					got = n
				}
			}
		}
		if got != rec.Key {
			kind, bound := "unknown-id", int64(0)
			for _, v := range rec.R.VKeys {
				if v.Kid == rec.Kid {
					kind, bound = "current", rec.R.VU
				}
			}
			for _, o := range rec.R.Old {
				if o.Kid == rec.Kid {
					kind, bound = "old", o.Exp
				}
			}
			b := "valid_until"
			if kind == "old" {
				b = "expired_ts"
			}
			return fail(kind+"/ts-"+rel(rec.TS, bound)+"-"+b, fmt.Sprintf("PublicKey: want %s got %s", rec.Key, got), rec.Key, got)
		}
		return hx.Result{OK: true, NT: "pubkey|" + rec.Kid + "|" + got}
	case "direct":
		cl := &scriptedClient{rc: rc, direct: map[string]DirectScript{"s1": rec.D}, lookup: map[string]ListScript{"s1": rec.N}}
		reqs := map[gmsl.PublicKeyLookupRequest]spec.Timestamp{lookupReq("s1/k1"): rc.ms(-48)}
		if rec.Srv2 {
			cl.direct["s2"] = DirectScript{Kind: "resp", R: Resp{Name: "s2", VU: 24, NSig: "none",
				VKeys: []VKey{{Kid: "k1", Alg: "ed25519", Key: "A1", Size: "ok", Sig: "good"}}}}
			reqs[lookupReq("s2/k1")] = rc.ms(-48)
		}
		if rec.Local {
			reqs[lookupReq("s0/k1")] = rc.ms(-48)
		}
		f := &gmsl.DirectKeyFetcher{Client: cl,
			IsLocalServerName: func(s spec.ServerName) bool { return s == serverName("s0") },
			LocalPublicKey:    spec.Base64Bytes(keyFor(seed, "s0", "L").pub)}
		res, err := f.FetchKeys(context.Background(), reqs)
		got := rc.abstractTable(res)
		var all []Resp
		if rec.D.Kind == "resp" {
			all = append(all, rec.D.R)
		}
		if rec.N.Kind == "list" {
			all = append(all, rec.N.Rs...)
		}
		if d, what := tableDiff(edOnly(rec.Tab), got, all, false); d != "" {
			return fail(d, what, rec.Tab, map[string]interface{}{"tab": got, "err": err != nil, "calls": cl.calls})
		}
		// which client calls were made (worker pool: no order)
		var wc, gc []string
		for _, c := range rec.Calls {
			wc = append(wc, c.Op+":"+c.Srv)
		}
		for _, c := range cl.calls {
			gc = append(gc, c.Op+":"+c.Srv)
		}
		note := ""
		if !sameSet(wc, gc) {
			note = fmt.Sprintf("client calls: want %v got %v", wc, gc)
		}
		r := hx.Result{OK: true, NT: fmt.Sprintf("direct|%d|%d", len(got), len(gc))}
		if note != "" {
			r.Extra = map[string]string{"design": "C12/resp/design/client-calls", "what": note}
		}
		return r
	case "persp":
		cl := &scriptedClient{rc: rc, lookup: map[string]ListScript{"notary": rec.P}}
		f := &gmsl.PerspectiveKeyFetcher{PerspectiveServerName: spec.ServerName(notaryName()),
			PerspectiveServerKeys: map[gmsl.KeyID]ed25519.PublicKey{notaryKeyID(): keyFor(seed, "notary", "P1").pub},
			Client:                cl}
		reqs := map[gmsl.PublicKeyLookupRequest]spec.Timestamp{lookupReq("s1/k1"): rc.ms(-48), lookupReq("s2/k1"): rc.ms(-48), lookupReq("notary/p1"): rc.ms(-48)}
		res, err := f.FetchKeys(context.Background(), reqs)
		got := rc.abstractTable(res)
		if d, what := tableDiff(edOnly(rec.Tab), got, rec.P.Rs, true); d != "" {
			return fail(d, what, rec.Tab, map[string]interface{}{"tab": got, "err": err != nil})
		}
		return hx.Result{OK: true, NT: fmt.Sprintf("persp|%d|%v", len(got), err != nil)}
	}
	panic("unknown mode " + rec.Mode)
}
