package main

// Concrete spellings of the abstract vocabulary.  Three variants, chosen from the seed, so that every
// scenario is also run with names that are valid but unusual and with names that nearly coincide:
//
//	variant 0  plain: "s1.example.org", "s2.example.org:8448", "ed25519:k1"
//	variant 1  near-coincidences: server names that differ by a suffix only, key IDs that differ in
//	           letter case only ("ed25519:key" / "ed25519:KEY" / "ed25519:Key")
//	variant 2  IP literals with and without port, key IDs where one is a prefix of the other and IDs
//	           as real servers mint them ("ed25519:a_Obwu", "ed25519:1")
//
// The mapping is injective in every variant; anything outside the tables falls back to the plain rule.

import (
	"strings"

	gmsl "github.com/matrix-org/gomatrixserverlib"
	"github.com/matrix-org/gomatrixserverlib/spec"
)

var vocabVariant = 0

func setVocab(seed int64) {
	v := int(seed % 3)
	if v < 0 {
		v = -v
	}
	vocabVariant = v
}

var serverTables = []map[string]string{
	{"s2": "s2.example.org:8448"},
	{"s1": "s1.example.org", "s2": "s1.example.org:8448", "s3": "s1.example.org.uk", "s0": "s1.example.or"},
	{"s1": "[2001:db8::1]:8448", "s2": "[2001:db8::1]", "s3": "192.0.2.1:8448", "s0": "192.0.2.1"},
}

var kidTables = []map[string]string{
	{},
	{"k1": "key", "k2": "KEY", "k3": "Key", "k0": "kEY", "k9": "keY", "k8": "KEy"},
	{"k1": "a_Obwu", "k2": "a_Obwu1", "k3": "a_Obw", "k0": "1", "k9": "0", "k8": "auto"},
}

func serverName(s string) spec.ServerName {
	if c, ok := serverTables[vocabVariant][s]; ok {
		return spec.ServerName(c)
	}
	return spec.ServerName(s + ".example.org")
}

func abstractServer(n spec.ServerName) string {
	for a, c := range serverTables[vocabVariant] {
		if c == string(n) {
			return a
		}
	}
	return strings.TrimSuffix(string(n), ".example.org")
}

func edKeyID(kid string) gmsl.KeyID {
	if c, ok := kidTables[vocabVariant][kid]; ok {
		return gmsl.KeyID("ed25519:" + c)
	}
	return gmsl.KeyID("ed25519:" + kid)
}

func abstractKid(id gmsl.KeyID) string {
	c := strings.TrimPrefix(string(id), "ed25519:")
	for a, x := range kidTables[vocabVariant] {
		if x == c {
			return a
		}
	}
	return c
}
