package main

// Concretiser and scripted environment for KeyRing.tla scenarios.
//
// Abstract vocabulary (as emitted by KeyRing_gen.tla / drawn by the recorder):
//   server "s1"            -> spec.ServerName "s1.example.org" ("s2" carries a port)
//   key ID "k1"/ed25519    -> "ed25519:k1"; other algorithms -> an ID the key ring must not use
//   key name "s1/k1"       -> PublicKeyLookupRequest{server, key ID}
//   key "K1" of server s   -> a real ed25519 key pair derived from (seed, s, "K1")
//   signer "G"             -> a signature entry that verifies under no key (several shapes)
//   time h (hours)         -> base + h hours in milliseconds, base = time.Now() of the scenario;
//                             NoTS (-9999) -> 0 (PublicKeyNotExpired / PublicKeyNotValid)
// No clock hook: the data is shifted relative to the real clock; every value is at least one hour
// away from now and from now + 7 days.

import (
	"bytes"
	"context"
	"crypto/ed25519"
	"crypto/sha256"
	"encoding/base64"
	"encoding/json"
	"errors"
	"fmt"
	"sort"
	"strings"
	"sync"
	"time"

	gmsl "github.com/matrix-org/gomatrixserverlib"
	"github.com/matrix-org/gomatrixserverlib/spec"
)

const noTS = -9999
const hourMS = int64(3600000)

// Entry is one key lookup result in abstract form.
type Entry struct {
	Key string `json:"key"`
	VU  int64  `json:"vu"`
	Exp int64  `json:"exp"`
}

// Table maps key names to entries. TLC prints an empty function as [].
type Table map[string]Entry

func (t *Table) UnmarshalJSON(b []byte) error {
	b = bytes.TrimSpace(b)
	*t = Table{}
	if len(b) > 0 && b[0] == '[' {
		return nil
	}
	m := map[string]Entry{}
	if err := json.Unmarshal(b, &m); err != nil {
		return err
	}
	*t = m
	return nil
}

func (t Table) MarshalJSON() ([]byte, error) {
	if t == nil {
		return []byte("{}"), nil
	}
	return json.Marshal(map[string]Entry(t))
}

type SigEnt struct {
	Kid string `json:"kid"`
	Alg string `json:"alg"`
	By  string `json:"by"`
}

type Req struct {
	// Ver: judge with this room version's own SignatureValidityCheck instead of Strict
	Ver    string   `json:"ver"`
	Srv    string   `json:"srv"`
	Form   string   `json:"form"`
	Sigs   []SigEnt `json:"sigs"`
	TS     int64    `json:"ts"`
	Strict bool     `json:"strict"`
}

type Fetcher struct {
	Mode string `json:"mode"`
	Tab  Table  `json:"tab"`
	All  bool   `json:"all"`
}

type Call struct {
	Op   string   `json:"op"`
	Who  int      `json:"who"`
	Keys []string `json:"keys"`
}

// Scenario is what the key ring is run on.
type Scenario struct {
	Fam      string    `json:"fam,omitempty"`
	Requests []Req     `json:"requests"`
	DB       Table     `json:"db"`
	DBMode   string    `json:"dbmode"`
	Fetchers []Fetcher `json:"fetchers"`
}

// RingRec is one KeyRing_gen record: scenario + what the specification derives.
type RingRec struct {
	Scenario
	Results []string `json:"results"`
	TopErr  bool     `json:"toperr"`
	Calls   []Call   `json:"calls"`
	Fetched Table    `json:"fetched"`
	Have    Table    `json:"have"`
	Must    []string `json:"must"`
	Askable []string `json:"askable"`
}

// ---------------------------------------------------------------- concrete vocabulary

// unsupportedKeyID realises a key ID of an algorithm the key ring does not support.
func unsupportedKeyID(kid string, variant int) gmsl.KeyID {
	if variant%2 == 0 {
		// the same suffix as a supported ID of the message: only the algorithm (or its letter case) differs
		kid = strings.TrimPrefix(string(edKeyID("k1")), "ed25519:")
	}
	switch variant % 4 {
	case 0:
		return gmsl.KeyID("rsa:" + kid)
	case 1:
		return gmsl.KeyID("curve25519:" + kid)
	case 2:
		return gmsl.KeyID("ED25519:" + kid)
	default:
		return gmsl.KeyID("ed25519" + kid) // no colon
	}
}

func lookupReq(kn string) gmsl.PublicKeyLookupRequest {
	p := strings.SplitN(kn, "/", 2)
	return gmsl.PublicKeyLookupRequest{ServerName: serverName(p[0]), KeyID: edKeyID(p[1])}
}

func keyName(r gmsl.PublicKeyLookupRequest) string {
	return abstractServer(r.ServerName) + "/" + abstractKid(r.KeyID)
}

var keyCache sync.Map

type keyPair struct {
	pub  ed25519.PublicKey
	priv ed25519.PrivateKey
}

func keyFor(seed int64, srv, name string) keyPair {
	id := fmt.Sprintf("c12|%d|%s|%s", seed, srv, name)
	if v, ok := keyCache.Load(id); ok {
		return v.(keyPair)
	}
	h := sha256.Sum256([]byte(id))
	priv := ed25519.NewKeyFromSeed(h[:])
	kp := keyPair{pub: priv.Public().(ed25519.PublicKey), priv: priv}
	keyCache.Store(id, kp)
	return kp
}

// runCtx is one execution of a scenario.
type runCtx struct {
	sc   *Scenario
	seed int64
	idx  int
	base int64 // ms

	mu    sync.Mutex
	calls []ObsCall
}

// ObsCall is one observed call on the scripted database / fetchers.
type ObsCall struct {
	Op     string   `json:"op"`
	Who    int      `json:"who"`
	Keys   []string `json:"keys"`
	Ret    Table    `json:"ret,omitempty"`
	Stored Table    `json:"stored,omitempty"`
	Err    bool     `json:"err,omitempty"`
}

func (rc *runCtx) ms(h int64) spec.Timestamp {
	if h == noTS {
		return 0
	}
	return spec.Timestamp(rc.base + h*hourMS)
}

func (rc *runCtx) hours(ts spec.Timestamp) (int64, bool) {
	if ts == 0 {
		return noTS, true
	}
	d := int64(ts) - rc.base
	return d / hourMS, d%hourMS == 0
}

func (rc *runCtx) result(kn string, e Entry) gmsl.PublicKeyLookupResult {
	srv := strings.SplitN(kn, "/", 2)[0]
	return gmsl.PublicKeyLookupResult{
		VerifyKey:    gmsl.VerifyKey{Key: spec.Base64Bytes(keyFor(rc.seed, srv, e.Key).pub)},
		ExpiredTS:    rc.ms(e.Exp),
		ValidUntilTS: rc.ms(e.VU),
	}
}

// abstractEntry projects a lookup result back; an unknown key or an off-grid time shows up as "?".
func (rc *runCtx) abstractEntry(kn string, r gmsl.PublicKeyLookupResult) Entry {
	srv := strings.SplitN(kn, "/", 2)[0]
	e := Entry{Key: "?"}
	for _, name := range rc.keyNames() {
		if bytes.Equal(keyFor(rc.seed, srv, name).pub, r.Key) {
			e.Key = name
			break
		}
	}
	var ok1, ok2 bool
	e.VU, ok1 = rc.hours(r.ValidUntilTS)
	e.Exp, ok2 = rc.hours(r.ExpiredTS)
	if !ok1 || !ok2 {
		e.Key = "?"
	}
	return e
}

func (rc *runCtx) keyNames() []string {
	seen := map[string]bool{}
	var out []string
	add := func(k string) {
		if k != "" && k != "-" && k != "G" && !seen[k] {
			seen[k] = true
			out = append(out, k)
		}
	}
	for _, r := range rc.sc.Requests {
		for _, s := range r.Sigs {
			add(s.By)
		}
	}
	for _, e := range rc.sc.DB {
		add(e.Key)
	}
	for _, f := range rc.sc.Fetchers {
		for _, e := range f.Tab {
			add(e.Key)
		}
	}
	sort.Strings(out)
	return out
}

func (rc *runCtx) log(c ObsCall) {
	sort.Strings(c.Keys)
	rc.mu.Lock()
	rc.calls = append(rc.calls, c)
	rc.mu.Unlock()
}

func requestNames(reqs map[gmsl.PublicKeyLookupRequest]spec.Timestamp) []string {
	out := make([]string, 0, len(reqs))
	for r := range reqs {
		out = append(out, keyName(r))
	}
	sort.Strings(out)
	return out
}

// ---------------------------------------------------------------- scripted database and fetchers

var errScripted = errors.New("scripted failure")

type dbStub struct{ rc *runCtx }

func (d *dbStub) FetcherName() string { return "scripted database" }

func (d *dbStub) FetchKeys(_ context.Context, reqs map[gmsl.PublicKeyLookupRequest]spec.Timestamp) (map[gmsl.PublicKeyLookupRequest]gmsl.PublicKeyLookupResult, error) {
	names := requestNames(reqs)
	if d.rc.sc.DBMode == "fetcherr" {
		d.rc.log(ObsCall{Op: "dbfetch", Keys: names, Err: true})
		return nil, errScripted
	}
	out := map[gmsl.PublicKeyLookupRequest]gmsl.PublicKeyLookupResult{}
	ret := Table{}
	for _, kn := range names {
		if e, ok := d.rc.sc.DB[kn]; ok && e.Key != "-" {
			out[lookupReq(kn)] = d.rc.result(kn, e)
			ret[kn] = e
		}
	}
	d.rc.log(ObsCall{Op: "dbfetch", Keys: names, Ret: ret})
	return out, nil
}

func (d *dbStub) StoreKeys(_ context.Context, results map[gmsl.PublicKeyLookupRequest]gmsl.PublicKeyLookupResult) error {
	st := Table{}
	var names []string
	for r, v := range results {
		kn := keyName(r)
		names = append(names, kn)
		st[kn] = d.rc.abstractEntry(kn, v)
	}
	fail := d.rc.sc.DBMode == "storeerr"
	d.rc.log(ObsCall{Op: "store", Keys: names, Stored: st, Err: fail})
	if fail {
		return errScripted
	}
	return nil
}

type fetchStub struct {
	rc  *runCtx
	who int // 1-based
}

func (f *fetchStub) FetcherName() string { return fmt.Sprintf("scripted fetcher %d", f.who) }

func (f *fetchStub) FetchKeys(_ context.Context, reqs map[gmsl.PublicKeyLookupRequest]spec.Timestamp) (map[gmsl.PublicKeyLookupRequest]gmsl.PublicKeyLookupResult, error) {
	names := requestNames(reqs)
	sf := f.rc.sc.Fetchers[f.who-1]
	if sf.Mode != "ok" {
		f.rc.log(ObsCall{Op: "fetch", Who: f.who, Keys: names, Err: true})
		return nil, errScripted
	}
	asked := map[string]bool{}
	for _, n := range names {
		asked[n] = true
	}
	out := map[gmsl.PublicKeyLookupRequest]gmsl.PublicKeyLookupResult{}
	ret := Table{}
	for kn, e := range sf.Tab {
		if e.Key == "-" || !(sf.All || asked[kn]) {
			continue
		}
		out[lookupReq(kn)] = f.rc.result(kn, e)
		ret[kn] = e
	}
	f.rc.log(ObsCall{Op: "fetch", Who: f.who, Keys: names, Ret: ret})
	return out, nil
}

// ---------------------------------------------------------------- messages

func garbageSignature(rc *runCtx, i int, srv string, variant int) json.RawMessage {
	h := sha256.Sum256([]byte(fmt.Sprintf("garbage|%d|%d|%d", rc.seed, rc.idx, i)))
	var raw []byte
	switch variant % 4 {
	case 0: // 64 arbitrary bytes
		raw = append(append([]byte{}, h[:]...), h[:]...)
	case 1: // a real signature of the right key over another message
		raw = ed25519.Sign(keyFor(rc.seed, srv, "K1").priv, []byte(`{"another":"message"}`))
	case 2: // wrong length
		raw = h[:10]
	default: // 64 zero bytes
		raw = make([]byte, 64)
	}
	// (a value that is not base64 at all is outside this property: VerifyJSON then refuses the whole
	// signatures object, whichever key ID is being checked - see JSONSign / C02)
	return json.RawMessage(`"` + base64.RawStdEncoding.EncodeToString(raw) + `"`)
}

// buildMessage realises request i of the scenario as JSON bytes.
func buildMessage(rc *runCtx, i int, r Req) []byte {
	v := int(rc.seed) + rc.idx + i
	if v < 0 {
		v = -v
	}
	server := string(serverName(r.Srv))
	if r.Form != "obj" {
		switch v % 4 {
		case 0:
			return []byte(`{"signatures":{"` + server + `":{"ed25519:k1":`)
		case 1:
			return []byte(`[1,2,3]`)
		case 2:
			return []byte(`"just a string"`)
		default:
			return []byte(``)
		}
	}
	msg := []byte(fmt.Sprintf(`{"type":"m.test","origin":%q,"content":{"request":%d,"batch":%d}}`, server, i, rc.idx))
	var err error
	garbage := map[string]json.RawMessage{}
	for _, s := range r.Sigs {
		id := edKeyID(s.Kid)
		if s.Alg != "ed25519" {
			id = unsupportedKeyID(s.Kid, v)
		}
		if s.By == "G" || s.Alg != "ed25519" {
			garbage[string(id)] = garbageSignature(rc, i, r.Srv, v+len(garbage))
			continue
		}
		if msg, err = gmsl.SignJSON(server, id, keyFor(rc.seed, r.Srv, s.By).priv, msg); err != nil {
			panic(err)
		}
	}
	// a signature of an unrelated entity is always allowed to be there
	if v%3 != 0 {
		if msg, err = gmsl.SignJSON("other.example.org", "ed25519:o1", keyFor(rc.seed, "other", "O").priv, msg); err != nil {
			panic(err)
		}
	}
	var obj map[string]json.RawMessage
	if err = json.Unmarshal(msg, &obj); err != nil {
		panic(err)
	}
	sigs := map[string]map[string]json.RawMessage{}
	if raw, ok := obj["signatures"]; ok {
		if err = json.Unmarshal(raw, &sigs); err != nil {
			panic(err)
		}
	}
	if len(garbage) > 0 {
		if sigs[server] == nil {
			sigs[server] = map[string]json.RawMessage{}
		}
		for id, g := range garbage {
			sigs[server][id] = g
		}
	}
	if len(r.Sigs) == 0 && v%4 == 1 {
		sigs[server] = map[string]json.RawMessage{} // an empty signature block for the named server
	}
	if len(sigs) > 0 || v%2 == 0 {
		b, _ := json.Marshal(sigs)
		obj["signatures"] = b
	} else {
		delete(obj, "signatures")
	}
	if v%2 == 1 {
		obj["unsigned"] = json.RawMessage(`{"age_ts":1}`) // not covered by signatures
	}
	out, err := json.Marshal(obj)
	if err != nil {
		panic(err)
	}
	return out
}

// ---------------------------------------------------------------- running

// Obs is what was observed of one VerifyJSONs call.
type Obs struct {
	Results []string  `json:"results"`
	TopErr  bool      `json:"toperr"`
	Calls   []ObsCall `json:"calls"`
	NRes    int       `json:"nres"`
}

func runScenario(sc *Scenario, seed int64, idx int) Obs {
	rc := &runCtx{sc: sc, seed: seed, idx: idx, base: time.Now().UnixMilli()}
	kr := gmsl.KeyRing{KeyDatabase: &dbStub{rc}}
	for i := range sc.Fetchers {
		kr.KeyFetchers = append(kr.KeyFetchers, &fetchStub{rc, i + 1})
	}
	reqs := make([]gmsl.VerifyJSONRequest, len(sc.Requests))
	for i, r := range sc.Requests {
		check := gmsl.SignatureValidityCheckFunc(gmsl.NoStrictValidityCheck)
		if r.Strict {
			check = gmsl.StrictValiditySignatureCheck
		}
		if r.Ver != "" {
			check = gmsl.MustGetRoomVersion(gmsl.RoomVersion(r.Ver)).SignatureValidityCheck
		}
		reqs[i] = gmsl.VerifyJSONRequest{
			ServerName:           serverName(r.Srv),
			AtTS:                 rc.ms(r.TS),
			Message:              buildMessage(rc, i, r),
			ValidityCheckingFunc: check,
		}
	}
	res, err := kr.VerifyJSONs(context.Background(), reqs)
	o := Obs{TopErr: err != nil, NRes: len(res)}
	for _, r := range res {
		if r.Error == nil {
			o.Results = append(o.Results, "ok")
		} else {
			o.Results = append(o.Results, "fail")
		}
	}
	rc.mu.Lock()
	o.Calls = append(o.Calls, rc.calls...)
	rc.mu.Unlock()
	return o
}

// ---------------------------------------------------------------- comparison helpers

func sameSet(a, b []string) bool {
	if len(a) != len(b) {
		return false
	}
	x := append([]string{}, a...)
	y := append([]string{}, b...)
	sort.Strings(x)
	sort.Strings(y)
	for i := range x {
		if x[i] != y[i] {
			return false
		}
	}
	return true
}

func subset(a, b []string) bool {
	m := map[string]bool{}
	for _, s := range b {
		m[s] = true
	}
	for _, s := range a {
		if !m[s] {
			return false
		}
	}
	return true
}

func callShape(cs []ObsCall) string {
	var sb strings.Builder
	for _, c := range cs {
		switch c.Op {
		case "dbfetch":
			sb.WriteString("D")
		case "store":
			sb.WriteString("S")
		default:
			fmt.Fprintf(&sb, "F%d", c.Who)
		}
		fmt.Fprintf(&sb, "%d", len(c.Keys))
		if c.Err {
			sb.WriteString("!")
		}
		sb.WriteString(" ")
	}
	return strings.TrimSpace(sb.String())
}
