package main

// c12rec: code -> spec.  Seeded random batches (a wider vocabulary than the generator: up to five
// requests, three servers, three key IDs, three fetchers, entries without any validity, entries with
// both timestamps, many instants) are run through a real KeyRing; the scripted database and fetchers log
// DBFetch / Fetch / Store events at the real call boundaries.  One NDJSON line per event:
//
//	{"b":n,"ev":"begin","sc":{requests,db,dbmode,fetchers}}
//	{"b":n,"ev":"dbfetch","who":0,"keys":[..]}
//	{"b":n,"ev":"fetch","who":i,"keys":[..]}
//	{"b":n,"ev":"store","who":0,"keys":[..],"stored":{..}}
//	{"b":n,"ev":"end","results":[..],"toperr":bool}
//
// KeyRing_trace.tla replays the stages of KeyRing.tla along these lines.

import (
	"encoding/json"
	"fmt"
	"math/rand"
	"sort"

	"verifharness/hx"
)

type traceLine struct {
	B       int       `json:"b"`
	Ev      string    `json:"ev"`
	Sc      *Scenario `json:"sc,omitempty"`
	Who     int       `json:"who"`
	Keys    []string  `json:"keys"`
	Stored  Table     `json:"stored"`
	Results []string  `json:"results"`
	TopErr  bool      `json:"toperr"`
	// observation for naming a rejection (not read by the trace specification)
	Displaced bool `json:"displaced,omitempty"`
}

var recTimes = []int64{-96, -72, -48, -24, -2, 2, 24, 48, 120, 166, 170, 192, 216}

var recVersions = []string{"1", "2", "3", "4", "5", "6", "7", "8", "9", "10", "11", "12",
	"org.matrix.msc3667", "org.matrix.msc3787", "org.matrix.msc4014", "org.matrix.hydra.11"}

func pick[T any](r *rand.Rand, xs []T) T { return xs[r.Intn(len(xs))] }

func randEntry(r *rand.Rand, good string) Entry {
	key := good
	if r.Intn(5) == 0 {
		key = pick(r, []string{"K1", "K2", "K3"})
	}
	switch r.Intn(10) {
	case 0, 1, 2, 3, 4:
		return Entry{Key: key, VU: pick(r, recTimes), Exp: noTS}
	case 5, 6, 7:
		return Entry{Key: key, VU: noTS, Exp: pick(r, recTimes)}
	case 8:
		return Entry{Key: key, VU: pick(r, recTimes), Exp: pick(r, recTimes)}
	default:
		return Entry{Key: key, VU: noTS, Exp: noTS}
	}
}

func goodKeyOf(kid string) string {
	switch kid {
	case "k2":
		return "K2"
	case "k3":
		return "K3"
	}
	return "K1"
}

func randScenario(r *rand.Rand) *Scenario {
	sc := &Scenario{DB: Table{}, DBMode: "ok"}
	servers := []string{"s1", "s2", "s3"}
	kids := []string{"k1", "k2", "k3"}
	nreq := 1 + r.Intn(5)
	if r.Intn(40) == 0 {
		nreq = 0 // the empty batch
	}
	wanted := map[string]bool{}
	for i := 0; i < nreq; i++ {
		q := Req{Srv: pick(r, servers), Form: "obj", TS: pick(r, recTimes), Strict: r.Intn(2) == 0, Sigs: []SigEnt{}}
		if r.Intn(15) == 0 {
			q.Form = "notjson"
		} else {
			for _, k := range kids {
				if r.Intn(5) < 2 {
					by := goodKeyOf(k)
					switch r.Intn(6) {
					case 0:
						by = "G"
					case 1:
						by = pick(r, []string{"K1", "K2", "K3"})
					}
					q.Sigs = append(q.Sigs, SigEnt{Kid: k, Alg: "ed25519", By: by})
					wanted[q.Srv+"/"+k] = true
				}
			}
			if r.Intn(4) == 0 {
				q.Sigs = append(q.Sigs, SigEnt{Kid: "u1", Alg: pick(r, []string{"rsa", "curve25519"}), By: "G"})
			}
		}
		switch r.Intn(12) {
		case 0:
			q.TS = noTS // AtTS = 0
		case 1, 2, 3:
			// judged by a registered room version's own check (which ones are strict is the specification's business)
			q.Ver = pick(r, recVersions)
			q.Strict = false
		}
		if i > 0 && r.Intn(8) == 0 {
			q = sc.Requests[r.Intn(i)] // the same request twice
		}
		sc.Requests = append(sc.Requests, q)
	}
	var names []string
	for k := range wanted {
		names = append(names, k)
	}
	sort.Strings(names)
	universe := append([]string{}, names...)
	universe = append(universe, "s1/k9", "s3/k8")
	kidOf := func(kn string) string { return kn[len(kn)-2:] }
	for _, kn := range names {
		if r.Intn(3) != 0 {
			sc.DB[kn] = randEntry(r, goodKeyOf(kidOf(kn)))
		}
	}
	switch r.Intn(25) {
	case 0:
		sc.DBMode = "fetcherr"
	case 1:
		sc.DBMode = "storeerr"
	}
	nf := r.Intn(4)
	for j := 0; j < nf; j++ {
		f := Fetcher{Mode: "ok", Tab: Table{}, All: r.Intn(3) == 0}
		if r.Intn(6) == 0 {
			f.Mode = "error"
		}
		for _, kn := range universe {
			if r.Intn(2) == 0 {
				f.Tab[kn] = randEntry(r, goodKeyOf(kidOf(kn)))
			}
		}
		sc.Fetchers = append(sc.Fetchers, f)
	}
	if sc.Requests == nil {
		sc.Requests = []Req{}
	}
	if sc.Fetchers == nil {
		sc.Fetchers = []Fetcher{}
	}
	return sc
}

func emitBatch(tw *hx.TraceWriter, b int, sc *Scenario, o Obs, displaced bool) {
	tw.Emit(traceLine{B: b, Ev: "begin", Sc: sc, Keys: []string{}, Stored: Table{}, Results: []string{}})
	for _, c := range o.Calls {
		l := traceLine{B: b, Ev: c.Op, Who: c.Who, Keys: c.Keys, Stored: Table{}, Results: []string{}}
		if l.Keys == nil {
			l.Keys = []string{}
		}
		if c.Op == "store" {
			l.Stored = c.Stored
		}
		tw.Emit(l)
	}
	res := o.Results
	if res == nil {
		res = []string{}
	}
	tw.Emit(traceLine{B: b, Ev: "end", Keys: []string{}, Stored: Table{}, Results: res, TopErr: o.TopErr, Displaced: displaced})
}

// sawDisplacement reports (from the observed calls alone) whether an entry that a fetcher volunteered
// under a name it was not asked for ended up stored in place of a different entry which the database or
// an earlier fetcher had already returned for that name.
func sawDisplacement(o Obs) bool {
	held := Table{}
	extras := map[string][]Entry{}
	for _, c := range o.Calls {
		switch c.Op {
		case "dbfetch":
			for kn, e := range c.Ret {
				held[kn] = e
			}
		case "fetch":
			for kn, e := range c.Ret {
				h, ok := held[kn]
				switch {
				case subset([]string{kn}, c.Keys) || !ok:
					held[kn] = e
				case h != e:
					extras[kn] = append(extras[kn], e)
				}
			}
		case "store":
			for kn, e := range c.Stored {
				for _, x := range extras[kn] {
					if x == e && held[kn] != e {
						return true
					}
				}
			}
		}
	}
	return false
}

func init() {
	hx.Register("c12rec", "record stage traces of seeded random batches through a real KeyRing", func(a *hx.Args) error {
		if a.Out == "" {
			return fmt.Errorf("-out required")
		}
		setVocab(a.Seed)
		tw, err := hx.NewTraceWriter(a.Out)
		if err != nil {
			return err
		}
		var scs []*Scenario
		if a.In != "" {
			raws, err := hx.ReadRecords(a.In)
			if err != nil {
				return err
			}
			for _, raw := range raws {
				var sc Scenario
				if err := json.Unmarshal(raw, &sc); err != nil {
					return err
				}
				scs = append(scs, &sc)
			}
		} else {
			r := rand.New(rand.NewSource(a.Seed*7919 + 12))
			for i := 0; i < a.N; i++ {
				scs = append(scs, randScenario(r))
			}
		}
		bad := 0
		displaced := 0
		for b, sc := range scs {
			b, sc := b, sc
			res := hx.Safely(b, func() hx.Result {
				o := runScenario(sc, a.Seed, b)
				d := sawDisplacement(o)
				if d {
					displaced++
				}
				emitBatch(tw, b+1, sc, o, d)
				return hx.Result{OK: true}
			})
			if !res.OK {
				bad++
				res.Extra = sc
				out, _ := json.Marshal(res)
				fmt.Println(string(out))
			}
		}
		if err := tw.Close(); err != nil {
			return err
		}
		out, _ := json.Marshal(map[string]interface{}{"ok": true, "batches": len(scs), "lines": tw.N, "panics": bad, "displaced": displaced})
		fmt.Println(string(out))
		return nil
	})
}
