package main

// c12ring: spec -> code replay of KeyRing_gen records.
//
// Compared (and nothing else): per-request nil / non-nil, the top-level error, which fetcher was asked for
// which set of (server, key ID) names (sets, not orders), and that what the fetchers returned was stored.
// A disagreement names the clause of the property it breaks; a difference from the staged design that
// stays inside what the property allows is keyed design/... .

import (
	"encoding/json"
	"fmt"
	"sort"
	"strings"

	"verifharness/hx"
)

func init() {
	hx.Register("c12ring", "replay KeyRing_gen records against a real KeyRing", func(a *hx.Args) error {
		setVocab(a.Seed)
		return hx.ReplayAll(a, func(i int, raw json.RawMessage) hx.Result {
			var rec RingRec
			if err := json.Unmarshal(raw, &rec); err != nil {
				panic(err)
			}
			return compareRing(&rec, runScenario(&rec.Scenario, a.Seed, i))
		})
	})
}

func entryKind(e Entry) string {
	if e.Exp != noTS {
		return "expired"
	}
	return "current"
}

func rel(a, b int64) string {
	switch {
	case a < b:
		return "lt"
	case a == b:
		return "eq"
	}
	return "gt"
}

// describeUnsound says, for a request that passed although no obtainable key allows it, what the
// nearest key in the scenario looked like (canonical, no concrete values).
func describeUnsound(rec *RingRec, i int) string {
	r := rec.Requests[i]
	best, bestScore := "no-matching-key", 99
	consider := func(kn string, by string, e Entry, src string) {
		if e.Key == "-" || e.Key != by {
			return
		}
		d := src + ":" + entryKind(e)
		score := 0
		if e.Exp != noTS {
			d += "/ts-" + rel(r.TS, e.Exp) + "-expired_ts"
			if r.TS > e.Exp {
				score = 2
			}
		} else {
			if e.VU == noTS {
				d += "/no-valid_until"
				score = 5
			} else {
				d += "/ts-" + rel(r.TS, e.VU) + "-valid_until"
				if r.TS > e.VU {
					score = 3
				}
			}
			if r.TS > 168 {
				d += "/ts-beyond-7d"
				score++
			}
		}
		if r.Strict {
			d += "/strict"
		} else {
			d += "/lenient"
		}
		// the key closest to being valid explains the acceptance best
		if score < bestScore || (score == bestScore && d < best) {
			best, bestScore = d, score
		}
	}
	if r.Form != "obj" {
		return "unparsable-message"
	}
	any := false
	for _, s := range r.Sigs {
		if s.Alg != "ed25519" {
			continue
		}
		any = true
		kn := r.Srv + "/" + s.Kid
		for j, f := range rec.Fetchers {
			if e, ok := f.Tab[kn]; ok && f.Mode == "ok" {
				consider(kn, s.By, e, fmt.Sprintf("f%d", j+1))
			}
		}
		if e, ok := rec.DB[kn]; ok {
			consider(kn, s.By, e, "db")
		}
	}
	if !any {
		return "no-supported-signature"
	}
	return best
}

func settled(e Entry) bool {
	return e.Key != "-" && (e.Exp != noTS || (e.VU != noTS && e.VU > 0))
}

// describeIncomplete says which source the specification says must have sufficed, and whether a
// consulted fetcher volunteered a different entry under that name.
func describeIncomplete(rec *RingRec, i int, obs Obs) string {
	r := rec.Requests[i]
	var parts []string
	for _, s := range r.Sigs {
		if s.Alg != "ed25519" {
			continue
		}
		kn := r.Srv + "/" + s.Kid
		src := ""
		var first Entry
		if e, ok := rec.DB[kn]; ok && settled(e) {
			src, first = "db-"+entryKind(e), e
		} else {
			for j, f := range rec.Fetchers {
				if fe, ok2 := f.Tab[kn]; ok2 && f.Mode == "ok" && fe.Key != "-" {
					src, first = fmt.Sprintf("f%d", j+1), fe
					break
				}
			}
			if src == "" && ok {
				src, first = "db-stale", e
			}
		}
		if src == "" || first.Key != s.By {
			continue
		}
		for _, c := range obs.Calls {
			if c.Op != "fetch" {
				continue
			}
			if e2, ok2 := c.Ret[kn]; ok2 && !subset([]string{kn}, c.Keys) && e2 != first {
				src += "+displaced-by-unrequested-key-of-f" + fmt.Sprint(c.Who)
				break
			}
		}
		parts = append(parts, src)
	}
	sort.Strings(parts)
	if len(parts) == 0 {
		return "?"
	}
	// prefer the description that names a displacement
	for _, p := range parts {
		if strings.Contains(p, "+displaced") {
			return p
		}
	}
	return parts[0]
}

// verTag names the room version whose own validity check judged the request (it is the point then).
func verTag(r Req) string {
	if r.Ver == "" {
		return ""
	}
	return "/ver=" + r.Ver
}

func fetchCalls(cs []ObsCall) []ObsCall {
	var out []ObsCall
	for _, c := range cs {
		if c.Op == "fetch" {
			out = append(out, c)
		}
	}
	return out
}

func compareRing(rec *RingRec, obs Obs) hx.Result {
	fail := func(clause, detail, what string) hx.Result {
		return hx.Result{OK: false, Key: "C12/ring/" + clause + "/" + detail, What: what,
			Want: map[string]interface{}{"results": rec.Results, "toperr": rec.TopErr, "calls": rec.Calls, "must": rec.Must},
			Got:  obs}
	}
	// a difference from the staged design that the property does not forbid: noted, never a verdict
	var dev, devWhat string
	design := func(detail, what string) {
		if dev == "" {
			dev, devWhat = "C12/ring/design/"+detail, what
		}
	}
	// top-level error
	if obs.TopErr != rec.TopErr {
		if obs.TopErr && rec.DBMode == "ok" {
			return fail("toperr", "error-without-database-failure", "VerifyJSONs returned a top-level error although the database did not fail")
		}
		design("toperr/dbmode="+rec.DBMode, fmt.Sprintf("top-level error: want %v got %v", rec.TopErr, obs.TopErr))
	}
	if !rec.TopErr && !obs.TopErr {
		// one result per request
		if obs.NRes != len(rec.Requests) {
			return fail("results", "count", fmt.Sprintf("%d results for %d requests", obs.NRes, len(rec.Requests)))
		}
		for i := range rec.Requests {
			if obs.Results[i] == rec.Results[i] {
				continue
			}
			if obs.Results[i] == "ok" {
				if rec.Must[i] == "fail" {
					return fail("unsound", describeUnsound(rec, i)+verTag(rec.Requests[i]), fmt.Sprintf("request %d passed although no key obtainable from the database or a fetcher is valid at its timestamp and verifies its signature", i+1))
				}
				design("accepted-where-the-staged-design-fails", fmt.Sprintf("request %d: want fail got ok (property leaves it open)", i+1))
				continue
			}
			if rec.Must[i] == "ok" {
				return fail("incomplete", describeIncomplete(rec, i, obs)+verTag(rec.Requests[i]), fmt.Sprintf("request %d failed although the database or the first fetcher able to answer supplied a key valid at its timestamp that verifies its signature", i+1))
			}
			design("rejected-where-the-staged-design-passes", fmt.Sprintf("request %d: want ok got fail (property leaves it open)", i+1))
		}
	}
	// which fetcher was asked for what; the database first
	var wantF []Call
	wantDB := 0
	for _, c := range rec.Calls {
		if c.Op == "fetch" {
			wantF = append(wantF, c)
		} else if c.Op == "dbfetch" {
			wantDB++
		}
	}
	gotF := fetchCalls(obs.Calls)
	for _, c := range gotF {
		if !subset(c.Keys, rec.Askable) {
			return fail("overfetch", fmt.Sprintf("f%d", c.Who), fmt.Sprintf("fetcher %d was asked for %v; the database lacks or holds past validity only %v", c.Who, c.Keys, rec.Askable))
		}
	}
	if len(gotF) != len(wantF) {
		design("fetch-calls", fmt.Sprintf("fetcher calls: want %v got %s", wantF, callShape(obs.Calls)))
	} else {
		for j := range wantF {
			if gotF[j].Who != wantF[j].Who || !sameSet(gotF[j].Keys, wantF[j].Keys) {
				design(fmt.Sprintf("fetch-set/f%d", wantF[j].Who), fmt.Sprintf("fetcher call %d: want f%d %v got f%d %v", j+1, wantF[j].Who, wantF[j].Keys, gotF[j].Who, gotF[j].Keys))
			}
		}
	}
	gotDB := 0
	for j, c := range obs.Calls {
		if c.Op == "dbfetch" {
			gotDB++
			if j != 0 {
				design("db-not-first", "the database was not consulted first")
			}
		}
	}
	if gotDB != wantDB {
		design("db-calls", fmt.Sprintf("database fetches: want %d got %d", wantDB, gotDB))
	}
	// what was fetched is stored
	if !obs.TopErr && !rec.TopErr {
		stored := Table{}
		for _, c := range obs.Calls {
			if c.Op == "store" {
				for k, e := range c.Stored {
					stored[k] = e
				}
			}
		}
		for _, c := range gotF {
			for kn := range c.Ret {
				if _, ok := stored[kn]; !ok {
					return fail("notstored", fmt.Sprintf("f%d", c.Who), fmt.Sprintf("key %s returned by fetcher %d was not stored", kn, c.Who))
				}
			}
		}
		for kn, e := range stored {
			// a stored value must be one that the database or a consulted fetcher returned for that name
			seen := false
			for _, c := range obs.Calls {
				if r, ok := c.Ret[kn]; ok && r == e {
					seen = true
				}
			}
			if !seen {
				return fail("notstored", "value", fmt.Sprintf("stored %v for %s, which neither the database nor a fetcher returned", e, kn))
			}
		}
		for kn, e := range rec.Fetched {
			if stored[kn] != e {
				design("stored-value", fmt.Sprintf("stored %v for %s, the staged design adopts %v", stored[kn], kn, e))
			}
		}
		for kn, e := range stored {
			if rec.Have[kn] != e {
				design("stored-other", fmt.Sprintf("stored %v for %s; the staged design holds %v", e, kn, rec.Have[kn]))
			}
		}
	}
	nt := fmt.Sprintf("%s|%s|%s|%s", rec.Fam, strings.Join(rec.Results, ","), strings.Join(rec.Must, ","), callShape(obs.Calls))
	if dev != "" {
		return hx.Result{OK: true, NT: nt, Extra: map[string]string{"design": dev, "what": devWhat}}
	}
	return hx.Result{OK: true, NT: nt}
}
