package main

// The scripted environment: an in-memory key database holding the servers' real public keys behind a real KeyRing,
// and a BackfillRequester that plays the remote servers (per server the answer of the record), the caller's event
// provider (behaviour per event ID) and the caller's state provider (the state the record reports per event), and
// records every call it receives.

import (
	"context"
	"errors"
	"fmt"
	"sync"
	"time"

	gmsl "github.com/matrix-org/gomatrixserverlib"
	"github.com/matrix-org/gomatrixserverlib/spec"
)

// keyDB implements gomatrixserverlib.KeyDatabase in memory: preloaded with the servers' real public keys, valid
// far beyond now; what the key ring stores is kept and served again.
type keyDB struct {
	mu    sync.Mutex
	store map[gmsl.PublicKeyLookupRequest]gmsl.PublicKeyLookupResult
}

func newKeyDB() *keyDB {
	db := &keyDB{store: map[gmsl.PublicKeyLookupRequest]gmsl.PublicKeyLookupResult{}}
	validUntil := spec.AsTimestamp(time.Now().Add(1000 * 24 * time.Hour))
	for name, k := range serverKeys {
		db.store[gmsl.PublicKeyLookupRequest{ServerName: spec.ServerName(name), KeyID: keyID}] = gmsl.PublicKeyLookupResult{
			VerifyKey:    gmsl.VerifyKey{Key: spec.Base64Bytes(k.pub)},
			ExpiredTS:    gmsl.PublicKeyNotExpired,
			ValidUntilTS: validUntil,
		}
	}
	return db
}

func (*keyDB) FetcherName() string { return "x04-keydb" }

func (db *keyDB) FetchKeys(ctx context.Context, requests map[gmsl.PublicKeyLookupRequest]spec.Timestamp) (map[gmsl.PublicKeyLookupRequest]gmsl.PublicKeyLookupResult, error) {
	db.mu.Lock()
	defer db.mu.Unlock()
	out := map[gmsl.PublicKeyLookupRequest]gmsl.PublicKeyLookupResult{}
	for req := range requests {
		if res, ok := db.store[req]; ok {
			out[req] = res
		}
	}
	return out, nil
}

func (db *keyDB) StoreKeys(ctx context.Context, results map[gmsl.PublicKeyLookupRequest]gmsl.PublicKeyLookupResult) error {
	db.mu.Lock()
	defer db.mu.Unlock()
	for req, res := range results {
		db.store[req] = res
	}
	return nil
}

func newKeyRing() gmsl.JSONVerifier {
	return &gmsl.KeyRing{KeyDatabase: newKeyDB()}
}

var errProvider = errors.New("x04: scripted provider error")
var errTransport = errors.New("x04: scripted transport error")

// backfillCall is one Backfill call as received.
type backfillCall struct {
	Server string   `json:"server"`
	Origin string   `json:"origin"`
	Room   string   `json:"room"`
	Limit  int      `json:"limit"`
	From   []string `json:"from"`
}

type serversCall struct {
	Room, EventID string
}

// requester implements gomatrixserverlib.BackfillRequester.
type requester struct {
	w      *world
	cancel context.CancelFunc
	wire   map[string][][]byte // server -> the PDUs it answers with (bytes)

	mu         sync.Mutex
	backfill   []backfillCall
	servers    []serversCall
	spIDs      [][]int // per Backfill call received so far (index 0: before the first): keys StateIDsBeforeEvent was called for
	spEvents   [][]int // same for StateBeforeEvent
	spSeq      [][]int // both, in call order
	spUnknown  []string
	provAsked  map[string]bool
	unexpected []string // servers asked that the behaviour has no answer for
}

func newRequester(w *world, cancel context.CancelFunc) *requester {
	return &requester{w: w, cancel: cancel, wire: map[string][][]byte{}, spIDs: [][]int{nil}, spEvents: [][]int{nil}, spSeq: [][]int{nil},
		provAsked: map[string]bool{}}
}

func (q *requester) ServersAtEvent(ctx context.Context, roomID, eventID string) []spec.ServerName {
	q.mu.Lock()
	defer q.mu.Unlock()
	q.servers = append(q.servers, serversCall{roomID, eventID})
	out := make([]spec.ServerName, 0, len(q.w.r.Servers))
	for _, s := range q.w.r.Servers {
		out = append(out, spec.ServerName(s))
	}
	return out
}

func (q *requester) scriptFor(server string) *ask {
	for i := range q.w.r.Asks {
		if q.w.r.Asks[i].Server == server {
			return &q.w.r.Asks[i]
		}
	}
	return nil
}

func (q *requester) Backfill(ctx context.Context, origin, server spec.ServerName, roomID string, limit int, fromEventIDs []string) (gmsl.Transaction, error) {
	q.mu.Lock()
	defer q.mu.Unlock()
	q.backfill = append(q.backfill, backfillCall{Server: string(server), Origin: string(origin), Room: roomID, Limit: limit, From: append([]string{}, fromEventIDs...)})
	q.spIDs = append(q.spIDs, nil)
	q.spEvents = append(q.spEvents, nil)
	q.spSeq = append(q.spSeq, nil)
	a := q.scriptFor(string(server))
	t := gmsl.Transaction{Origin: server, OriginServerTS: spec.AsTimestamp(baseTime)}
	if a == nil || len(q.backfill) > len(q.w.r.Asks) || q.w.r.Asks[len(q.backfill)-1].Server != string(server) {
		// the behaviour does not have this server asked (now): answer with an empty transaction; the call log shows it
		q.unexpected = append(q.unexpected, string(server))
		return t, nil
	}
	switch a.Kind {
	case "error":
		return gmsl.Transaction{}, errTransport
	case "cancel":
		// the caller's context is cancelled while the request is in flight: the request fails with the context's error
		q.cancel()
		return gmsl.Transaction{}, fmt.Errorf("x04: request to %s aborted: %w", server, ctx.Err())
	}
	for _, b := range q.wire[string(server)] {
		t.PDUs = append(t.PDUs, append([]byte{}, b...))
	}
	return t, nil
}

// ProvideEvents implements the caller's event provider: an error if one of the IDs is scripted to fail, otherwise
// the events scripted to be returned (the twin room's events are always returned).
func (q *requester) ProvideEvents(roomVer gmsl.RoomVersion, eventIDs []string) ([]gmsl.PDU, error) {
	q.mu.Lock()
	defer q.mu.Unlock()
	var out []gmsl.PDU
	failed := false
	for _, id := range eventIDs {
		q.provAsked[id] = true
		k, ok := q.w.byID[id]
		if !ok {
			continue
		}
		if k >= 100 {
			out = append(out, q.w.pdu[k])
			continue
		}
		switch q.w.r.ev(k).P {
		case "returns":
			out = append(out, q.w.pdu[k])
		case "errors":
			failed = true
		}
	}
	if failed {
		return nil, errProvider
	}
	return out, nil
}

func (q *requester) note(dst *[][]int, event gmsl.PDU) (int, bool) {
	k, ok := q.w.byID[event.EventID()]
	if !ok {
		q.spUnknown = append(q.spUnknown, event.EventID())
		return 0, false
	}
	n := len(*dst) - 1
	(*dst)[n] = append((*dst)[n], k)
	q.spSeq[n] = append(q.spSeq[n], k)
	return k, true
}

// stateKeys: the keys of the state reported before the event with key k (the twin room: the exact state).
func (q *requester) stateKeys(k int) []int {
	if k >= 100 {
		// the twin of the state the record reports for the event (foreign answers are only explored in worlds
		// without deviations: that is the exact state)
		var out []int
		for _, i := range q.w.r.SB[k-100-1] {
			out = append(out, 100+i)
		}
		return out
	}
	return q.w.r.SB[k-1]
}

func (q *requester) StateIDsBeforeEvent(ctx context.Context, event gmsl.PDU) ([]string, error) {
	q.mu.Lock()
	defer q.mu.Unlock()
	k, ok := q.note(&q.spIDs, event)
	if !ok {
		return nil, errProvider
	}
	if k < 100 && q.w.r.ev(k).SP == "ids_error" {
		return nil, errProvider
	}
	var out []string
	for _, i := range q.stateKeys(k) {
		out = append(out, q.w.ids[i])
	}
	return out, nil
}

func (q *requester) StateBeforeEvent(ctx context.Context, roomVer gmsl.RoomVersion, event gmsl.PDU, eventIDs []string) (map[string]gmsl.PDU, error) {
	q.mu.Lock()
	defer q.mu.Unlock()
	k, ok := q.note(&q.spEvents, event)
	if !ok {
		return nil, errProvider
	}
	if k < 100 && q.w.r.ev(k).SP == "state_error" {
		return nil, errProvider
	}
	out := map[string]gmsl.PDU{}
	for _, i := range q.stateKeys(k) {
		out[q.w.ids[i]] = q.w.pdu[i]
	}
	return out, nil
}
