package main

import (
	"context"
	"encoding/json"
	"fmt"
	"sort"
	"strings"

	gmsl "github.com/matrix-org/gomatrixserverlib"

	"verifharness/hx"
)

func (w *world) fail(aspect string, want, got interface{}, format string, args ...interface{}) hx.Result {
	r := w.r
	sk := r.scenarioKey()
	if strings.HasPrefix(aspect, "asks/") || strings.HasPrefix(aspect, "lookup/") || strings.HasPrefix(aspect, "error/") {
		sk = r.protocolKey()
	}
	return hx.Result{OK: false, Key: "X04/" + aspect + "/" + sk, Want: want, Got: got,
		What: fmt.Sprintf("RequestBackfill (room version %s, limit %d, from %v, servers %v): ", r.Ver, r.Limit, r.From, r.Servers) +
			fmt.Sprintf(format, args...) + "; behaviour: " + w.describeAsks() + "; room: " + w.describe() +
			"; concrete shapes: " + strings.Join(w.variants, ",")}
}

// failRoot: a disagreement whose origin is known - the rest of the scenario is not part of the key.
func (w *world) failRoot(key string, want, got interface{}, format string, args ...interface{}) hx.Result {
	res := w.fail("", want, got, format, args...)
	res.Key = "X04/" + key
	return res
}

func (w *world) describeAsks() string {
	var parts []string
	for _, a := range w.r.Asks {
		s := a.Server + ":" + a.Kind
		if len(a.PDUs) > 0 {
			var ps []string
			for j, p := range a.PDUs {
				x := fmt.Sprint(p.ID)
				if p.W != "none" {
					x += "[" + p.W + "]"
				}
				if j < len(a.Classes) {
					x += "=" + a.Classes[j]
				}
				ps = append(ps, x)
			}
			s += "(" + strings.Join(ps, " ") + ")"
		}
		parts = append(parts, s)
	}
	if len(parts) == 0 {
		return "nobody asked"
	}
	return strings.Join(parts, ", ")
}

func replayOne(i int, raw json.RawMessage, seed int64) hx.Result {
	var r rec
	if err := json.Unmarshal(raw, &r); err != nil {
		panic(err)
	}
	w := materialise(&r, raw, seed)
	res := replay(w)
	if res.OK && len(w.variants) > 0 {
		sort.Strings(w.variants)
		res.NT += "|" + strings.Join(dedupStrings(w.variants), ",")
	}
	return res
}

func dedupStrings(in []string) []string {
	var out []string
	for i, s := range in {
		if i == 0 || s != in[i-1] {
			out = append(out, s)
		}
	}
	return out
}

func replay(w *world) hx.Result {
	r := w.r
	ctx, cancel := context.WithCancel(context.Background())
	defer cancel()
	q := newRequester(w, cancel)

	// what every server answers with, as bytes; the order of the PDUs of a transaction is the server's business:
	// newest first (the model's order) or any other
	for ai := range r.Asks {
		a := &r.Asks[ai]
		idx := make([]int, len(a.PDUs))
		for j := range idx {
			idx[j] = j
		}
		if len(idx) > 1 && w.rng.Intn(2) == 0 {
			w.rng.Shuffle(len(idx), func(x, y int) { idx[x], idx[y] = idx[y], idx[x] })
			w.variants = append(w.variants, "pdus=shuffled")
		}
		var bs [][]byte
		for _, j := range idx {
			bs = append(bs, w.wireBytes(a.PDUs[j]))
		}
		q.wire[a.Server] = bs
	}

	from := make([]string, 0, len(r.From))
	for _, f := range r.From {
		from = append(from, w.ids[f])
	}
	if r.Cancel == "early" {
		cancel()
	}
	var fromArg []string
	if len(from) > 0 || w.rng.Intn(2) == 0 {
		fromArg = from // (no from IDs: an empty slice or nil)
	}
	events, err := gmsl.RequestBackfill(ctx, "hs1", q, newKeyRing(), w.room, w.ver, fromArg, r.Limit, identityQuerier)

	// ---------------------------------------------------------------- project the outcome
	var got []int
	for _, p := range events {
		if p == nil {
			return w.fail("result/nil-event", nil, nil, "RequestBackfill returned a nil event")
		}
		k, ok := w.byID[p.EventID()]
		if !ok {
			return w.fail("result/unknown-event", nil, p.EventID(), "RequestBackfill returned %s, which no server sent", p.EventID())
		}
		got = append(got, k)
	}
	offered := map[int]bool{}   // keys some asked server carried in parsable form
	viaBadSig := map[int]bool{} // keys that arrived (also) with a destroyed signature
	for _, a := range r.Asks {
		for _, p := range a.PDUs {
			if p.W != "malformed" {
				offered[p.key()] = true
			}
			if p.W == "badsig" {
				viaBadSig[p.key()] = true
			}
		}
	}
	want := sortedCopy(r.Out.Events)
	wantSet := setOf(want)
	gotSorted := sortedCopy(got)

	// ---- root causes first: what follows from them (who else is asked, the error) is not reported separately
	for _, k := range got {
		if k >= 100 {
			return w.failRoot("foreign-room-event-returned", want, gotSorted,
				"RequestBackfill for room %s returned event %s (the twin of event %d), a valid event of room %s: it does not belong to the room that is backfilled",
				w.room, w.ids[k], k-100, w.twinRoom)
		}
		if !wantSet[k] && r.ev(k).F == "wrongroom" {
			return w.failRoot("foreign-room-event-returned", want, gotSorted,
				"RequestBackfill for room %s returned event %d (%s), which carries the room ID %s: it does not belong to the room that is backfilled",
				w.room, k, typeOf(r.ev(k)), w.twinRoom)
		}
	}
	for _, k := range got {
		if !wantSet[k] && viaBadSig[k] && r.Cls[k-1] != "ok" {
			e := r.ev(k)
			return w.failRoot("sig-failure-skips-auth-checks/"+r.Cls[k-1], want, gotSorted,
				"RequestBackfill returned event %d (%s), which arrived with a signature that does not verify AND fails the auth checks (%s: %s); "+
					"only a failing signature is tolerated - an event that fails the signature check is never put through the auth checks",
				k, typeOf(e), r.Cls[k-1], map[string]string{"chain": "not allowed by its auth events", "rules": "not allowed by the state before it"}[r.Cls[k-1]])
		}
	}

	// ---- the Backfill calls: server, limit, from IDs, in order
	var wantCalls, gotCalls []string
	for _, a := range r.Asks {
		var f []string
		for _, x := range a.From {
			f = append(f, fmt.Sprint(x))
		}
		wantCalls = append(wantCalls, fmt.Sprintf("%s limit=%d from=[%s]", a.Server, a.Limit, strings.Join(f, " ")))
	}
	for _, c := range q.backfill {
		var f []string
		for _, id := range c.From {
			if k, ok := w.byID[id]; ok {
				f = append(f, fmt.Sprint(k))
			} else {
				f = append(f, id)
			}
		}
		gotCalls = append(gotCalls, fmt.Sprintf("%s limit=%d from=[%s]", c.Server, c.Limit, strings.Join(f, " ")))
		if c.Room != w.room || c.Origin != "hs1" {
			return w.fail("asks/wrong-room-or-origin", w.room, c.Room, "Backfill was called for room %s as %s (the caller asked for %s as hs1)", c.Room, c.Origin, w.room)
		}
	}
	if strings.Join(wantCalls, "; ") != strings.Join(gotCalls, "; ") {
		aspect := "asks/differ"
		switch {
		case len(gotCalls) > len(wantCalls) && strings.Join(gotCalls[:len(wantCalls)], "; ") == strings.Join(wantCalls, "; "):
			aspect = "asks/too-many"
			if r.Cancel != "no" {
				aspect = "asks/after-cancellation"
			}
		case len(gotCalls) < len(wantCalls) && strings.Join(wantCalls[:len(gotCalls)], "; ") == strings.Join(gotCalls, "; "):
			aspect = "asks/too-few"
		}
		return w.fail(aspect, wantCalls, gotCalls, "the servers were asked %v, the specification says %v", gotCalls, wantCalls)
	}

	// ---- ServersAtEvent: not at all without from IDs, otherwise for the room and one of the from IDs
	if len(r.From) == 0 && len(q.servers) > 0 {
		return w.fail("lookup/without-from", 0, len(q.servers), "ServersAtEvent was called although there are no from IDs")
	}
	if len(r.From) > 0 && len(q.servers) == 0 {
		return w.fail("lookup/missing", 1, 0, "ServersAtEvent was never called")
	}
	for _, c := range q.servers {
		ok := false
		for _, f := range from {
			ok = ok || f == c.EventID
		}
		if c.Room != w.room || !ok {
			return w.fail("lookup/args", from, c.EventID, "ServersAtEvent was called for room %s, event %s: not the room / none of the from IDs", c.Room, c.EventID)
		}
	}

	// ---- the returned events
	seen := map[int]bool{}
	for _, k := range got {
		if seen[k] {
			return w.fail("result/duplicate", want, got, "RequestBackfill returned event %d twice (returned %v)", k, got)
		}
		seen[k] = true
	}
	for _, k := range got {
		if !offered[k] {
			return w.fail("result/unoffered-event", want, gotSorted, "RequestBackfill returned event %d, which no asked server sent", k)
		}
	}
	if !sameInts(gotSorted, want) {
		for _, k := range gotSorted {
			if !wantSet[k] {
				return w.fail("result/bad-event-returned/"+r.Cls[k-1], want, gotSorted,
					"RequestBackfill returned event %d (%s), which the specification does not pass on (worth %q at the requester); returned %v, specification %v",
					k, typeOf(r.ev(k)), r.Cls[k-1], gotSorted, want)
			}
		}
		gs := setOf(gotSorted)
		for _, k := range want {
			if !gs[k] {
				how := "intact"
				if viaBadSig[k] {
					how = "with a signature that does not verify (tolerated)"
				}
				return w.fail("result/good-event-lost", want, gotSorted,
					"RequestBackfill did not return event %d (%s), which an asked server sent %s and which passes the auth checks; returned %v, specification %v",
					k, typeOf(r.ev(k)), how, gotSorted, want)
			}
		}
	}
	for a := 0; a < len(got); a++ {
		for b := a + 1; b < len(got); b++ {
			if w.isAncestor(got[b], got[a]) {
				return w.fail("result/not-topological", nil, got, "RequestBackfill returned %v: event %d comes before its ancestor %d", got, got[a], got[b])
			}
		}
	}

	// ---- the error
	wantErr := r.Out.Err != "none"
	if !r.Out.ErrLoose && wantErr != (err != nil) {
		return w.fail(fmt.Sprintf("error/want=%s", r.Out.Err), r.Out.Err, fmt.Sprint(err), "RequestBackfill returned error %v, the specification says %q", err, r.Out.Err)
	}
	if r.Out.Err == "cancelled" && len(events) != 0 {
		return w.fail("error/cancelled-with-events", 0, len(events), "RequestBackfill was cancelled before a server was asked and returned %d events", len(events))
	}

	// ---- the StateProvider calls, per transaction: in topological order, for every PDU that got as far as the
	// state check, for nothing that is not a PDU of the transaction
	if len(q.spUnknown) > 0 {
		return w.fail("stateprovider/unknown-event", nil, q.spUnknown, "the StateProvider was asked about %v, which is no event any server sent", q.spUnknown)
	}
	if len(q.spSeq[0]) > 0 {
		return w.fail("stateprovider/before-any-answer", nil, q.spSeq[0], "the StateProvider was asked about %v before any server had answered", q.spSeq[0])
	}
	for ai := range r.Asks {
		a := &r.Asks[ai]
		if ai+1 >= len(q.spSeq) {
			break
		}
		seq := q.spSeq[ai+1]
		for x := 0; x < len(seq); x++ {
			for y := x + 1; y < len(seq); y++ {
				if w.isAncestor(seq[y], seq[x]) {
					return w.fail("stateprovider/out-of-order", a.SPCalls, seq,
						"while the answer of %s was verified the StateProvider was asked about event %d before its ancestor %d (calls %v): not in topological order",
						a.Server, seq[x], seq[y], seq)
				}
			}
		}
		may := map[int]bool{}
		for _, p := range a.PDUs {
			if p.W != "malformed" {
				may[p.key()] = true
			}
		}
		for _, k := range seq {
			if !may[k] {
				return w.fail("stateprovider/unrelated-event", a.SPCalls, seq, "while the answer of %s was verified the StateProvider was asked about event %d, which is no PDU of that answer", a.Server, k)
			}
		}
		asked := setOf(q.spIDs[ai+1])
		for j, p := range a.PDUs {
			if p.W == "malformed" || p.W == "badsig" || j >= len(a.Under) {
				continue
			}
			if (a.Under[j] == "ok" || a.Under[j] == "rules") && !asked[p.key()] {
				return w.fail("stateprovider/not-asked", a.SPCalls, seq,
					"while the answer of %s was verified the StateProvider was never asked for the state before event %d, which passes the signature and auth-chain checks", a.Server, p.key())
			}
		}
	}
	for id := range q.provAsked {
		if _, ok := w.byID[id]; !ok {
			return w.fail("eventprovider/unknown-event", nil, id, "the event provider was asked for %s, which is no event of either room", id)
		}
	}

	errs := "err=nil"
	if err != nil {
		errs = "err"
	}
	return hx.Result{OK: true, NT: fmt.Sprintf("%s|%s|returned=%d|%s", r.Ver, r.scenarioKey(), len(got), errs)}
}
