package main

// Materialisation of a Backfill record (after harness/cmd/c14/build.go): the room is built event by event, in DAG
// order, with the real EventBuilder; event IDs are the real reference hashes (room versions 3+), so model ids are
// mapped to the real IDs as the events come into being.  The same history is built a second time in another room
// (the twin room): its events are valid in every respect - in THEIR room.

import (
	"bytes"
	"crypto/ed25519"
	"crypto/sha256"
	"encoding/base64"
	"encoding/json"
	"fmt"
	"hash/fnv"
	"math/rand"
	"sort"
	"strings"
	"sync"
	"time"

	gmsl "github.com/matrix-org/gomatrixserverlib"
	"github.com/matrix-org/gomatrixserverlib/spec"
	"github.com/tidwall/gjson"
	"github.com/tidwall/sjson"
)

var userIDs = map[string]string{
	"creator": "@creator:hs1", "alice": "@alice:hs1", "bob": "@bob:hs2", "carol": "@carol:hs2",
}

var roomLadder = [5]int64{-1, 0, 25, 50, 100}

const keyID = gmsl.KeyID("ed25519:k1")

// the events were sent long ago: no dependence on the wall clock (key validity is checked against
// min(valid_until, now + 7 days), far later)
var baseTime = time.Date(2020, 1, 1, 0, 0, 0, 0, time.UTC)

type serverKey struct {
	pub  ed25519.PublicKey
	priv ed25519.PrivateKey
}

func keyFromSeed(s string) serverKey {
	h := sha256.Sum256([]byte("x04-server-key-" + s))
	priv := ed25519.NewKeyFromSeed(h[:])
	return serverKey{priv.Public().(ed25519.PublicKey), priv}
}

var serverKeys = map[string]serverKey{"hs1": keyFromSeed("hs1"), "hs2": keyFromSeed("hs2")}
var strayKey = keyFromSeed("stray") // a key no server owns

func isDomainless(ver string) bool { return ver == "12" || ver == "org.matrix.hydra.11" }

func serverOf(userID string) string { return userID[strings.IndexByte(userID, ':')+1:] }

func strp(s string) *string { return &s }

func identityQuerier(roomID spec.RoomID, senderID spec.SenderID) (*spec.UserID, error) {
	return spec.NewUserID(string(senderID), true)
}

// world is the materialised record.  Keys: model id i for the event of the room, 100+i for its twin.
type world struct {
	r        *rec
	ver      gmsl.RoomVersion
	impl     gmsl.IRoomVersion
	room     string           // the room backfilled
	twinRoom string           // the other room
	ids      map[int]string   // key -> real event ID
	byID     map[string]int   // real event ID -> key
	pdu      map[int]gmsl.PDU // key -> the event as a server holding it has it (well signed, parsed)
	anc      map[int]map[int]bool
	rng      *rand.Rand
	variants []string
}

func recordRand(raw []byte, seed int64) *rand.Rand {
	// the random choices depend on the record itself (not on its position) so that a fresh-process re-run of one
	// record repeats them
	h := fnv.New64a()
	h.Write(raw)
	return rand.New(rand.NewSource(seed*1000003 + int64(h.Sum64()>>1)))
}

func (w *world) content(e *ev, twinCreate bool) map[string]interface{} {
	switch e.Type {
	case "create":
		c := map[string]interface{}{"room_version": string(w.ver)}
		if !(string(w.ver) == "11" || isDomainless(string(w.ver))) {
			c["creator"] = userIDs[e.Sender]
		}
		if twinCreate {
			c["org.verif.other"] = true // another create event: another room where room IDs are create event IDs
		}
		return c
	case "member":
		return map[string]interface{}{"membership": e.Membership}
	case "pl":
		users := map[string]int64{}
		for u, rk := range e.PLU {
			if rk >= 0 {
				users[userIDs[u]] = roomLadder[rk]
			}
		}
		return map[string]interface{}{"users": users}
	case "jr":
		return map[string]interface{}{"join_rule": e.JR}
	default:
		return map[string]interface{}{"topic": fmt.Sprintf("topic %d", e.ID)}
	}
}

var typeNames = map[string]string{"create": "m.room.create", "member": "m.room.member", "pl": "m.room.power_levels",
	"jr": "m.room.join_rules", "topic": "m.room.topic"}

var buildCache sync.Map

// buildEvent builds and signs one event with the real EventBuilder: in `room`, citing the events of key offset
// `off` (0: the room, 100: the twin room).
func (w *world) buildEvent(e *ev, room string, off int, twin bool) gmsl.PDU {
	pe := &gmsl.ProtoEvent{
		SenderID: userIDs[e.Sender],
		RoomID:   room,
		Type:     typeNames[e.Type],
		Depth:    e.Depth,
	}
	if e.Type == "member" {
		pe.StateKey = strp(userIDs[e.SKey])
	} else {
		pe.StateKey = strp("")
	}
	if err := pe.SetContent(w.content(e, twin && e.Type == "create")); err != nil {
		panic(err)
	}
	prev := []string{}
	for _, p := range e.Prev {
		prev = append(prev, w.ids[off+p])
	}
	auth := []string{}
	for _, a := range e.Auth {
		if isDomainless(string(w.ver)) && w.r.ev(a).Type == "create" {
			continue // implied by the room ID
		}
		auth = append(auth, w.ids[off+a])
	}
	sort.Strings(prev)
	sort.Strings(auth)
	pe.PrevEvents = prev
	pe.AuthEvents = auth
	if isDomainless(string(w.ver)) && e.Type == "create" {
		pe.RoomID = ""
	}
	// identical events recur in thousands of records: build (and sign) each once per process.  The event ID is
	// computed before the event is shared (it is cached lazily inside the PDU).
	cacheKey := fmt.Sprintf("%s|%s|%s|%s|%s|%s|%v|%s|%v|%v|%d|%d|%d|%v", w.ver, pe.RoomID, e.Type, e.Sender, e.SKey, e.Membership,
		e.PLU, e.JR, prev, auth, e.Depth, e.TS, e.ID, twin)
	if c, ok := buildCache.Load(cacheKey); ok {
		return c.(gmsl.PDU)
	}
	origin := serverOf(userIDs[e.Sender])
	// the model's events are distinct events even when two of them say the same thing on the same predecessors:
	// the event's number goes into the millisecond
	now := baseTime.Add(time.Duration(e.TS*1000+int64(e.ID)*10) * time.Millisecond)
	p, err := w.impl.NewEventBuilderFromProtoEvent(pe).Build(now, spec.ServerName(origin), keyID, serverKeys[origin].priv)
	if err != nil {
		panic(fmt.Sprintf("x04: cannot build event %d: %v", e.ID, err))
	}
	// an invite is also signed by the invited user's server
	if e.Type == "member" && e.Membership == "invite" {
		if ts := serverOf(userIDs[e.SKey]); ts != origin {
			signed := p.Sign(ts, keyID, serverKeys[ts].priv)
			p, err = w.impl.NewEventFromTrustedJSON(signed.JSON(), false)
			if err != nil {
				panic(fmt.Sprintf("x04: cannot re-parse the doubly signed event %d: %v", e.ID, err))
			}
		}
	}
	_ = p.EventID()
	if c, loaded := buildCache.LoadOrStore(cacheKey, p); loaded {
		return c.(gmsl.PDU)
	}
	return p
}

func (w *world) needsTwin() bool {
	for _, e := range w.r.Events {
		if e.F == "wrongroom" {
			return true
		}
	}
	for _, a := range w.r.Asks {
		for _, p := range a.PDUs {
			if p.W == "foreign" {
				return true
			}
		}
	}
	return false
}

func materialise(r *rec, raw []byte, seed int64) *world {
	w := &world{r: r, ver: gmsl.RoomVersion(r.Ver), ids: map[int]string{}, byID: map[string]int{}, pdu: map[int]gmsl.PDU{},
		anc: map[int]map[int]bool{}, rng: recordRand(raw, seed)}
	w.impl = gmsl.MustGetRoomVersion(w.ver)
	w.room, w.twinRoom = "!room:hs1", "!other:hs1"
	// the twin room first (an event of the room that carries the other room's ID needs that ID)
	if w.needsTwin() {
		for i := range r.Events {
			e := &r.Events[i]
			p := w.buildEvent(e, w.twinRoom, 100, true)
			if e.Type == "create" && isDomainless(r.Ver) {
				w.twinRoom = "!" + p.EventID()[1:]
			}
			w.ids[100+e.ID] = p.EventID()
			w.byID[p.EventID()] = 100 + e.ID
			w.pdu[100+e.ID] = p
		}
	}
	for i := range r.Events {
		e := &r.Events[i]
		if e.ID != i+1 {
			panic("x04: events are not numbered 1..N")
		}
		room := w.room
		if e.F == "wrongroom" {
			room = w.twinRoom // the event carries another room's ID (and cites the events of this room)
		}
		p := w.buildEvent(e, room, 0, false)
		if e.Type == "create" && isDomainless(r.Ver) {
			w.room = "!" + p.EventID()[1:]
		}
		w.ids[e.ID] = p.EventID()
		w.byID[p.EventID()] = e.ID
		w.pdu[e.ID] = p
		a := map[int]bool{}
		for _, q := range e.Prev {
			a[q] = true
			for x := range w.anc[q] {
				a[x] = true
			}
		}
		w.anc[e.ID] = a
	}
	return w
}

// isAncestor: is key a a strict ancestor (through prev_events) of key b?  Only events of one room are related.
func (w *world) isAncestor(a, b int) bool {
	if (a >= 100) != (b >= 100) {
		return false
	}
	return w.anc[b%100][a%100]
}

// badSignature returns the event's JSON with a signature of the sender's server that does not verify.
func (w *world) badSignature(e *ev, p gmsl.PDU) []byte {
	origin := serverOf(userIDs[e.Sender])
	path := "signatures." + strings.ReplaceAll(origin, ".", `\.`) + "." + strings.ReplaceAll(string(keyID), ".", `\.`)
	js := p.JSON()
	sig := gjson.GetBytes(js, path).String()
	rawSig, err := base64.RawStdEncoding.DecodeString(sig)
	if err != nil || len(rawSig) != ed25519.SignatureSize {
		panic(fmt.Sprintf("x04: event %d has no signature of %s: %s", e.ID, origin, js))
	}
	var out []byte
	switch w.rng.Intn(4) {
	case 0: // one bit of the signature flipped
		rawSig[w.rng.Intn(len(rawSig))] ^= 1 << uint(w.rng.Intn(8))
		out, err = sjson.SetBytes(js, path, base64.RawStdEncoding.EncodeToString(rawSig))
		w.variants = append(w.variants, "badsig=bitflip")
	case 1: // signed by a key that is not the server's
		redacted, rerr := w.impl.RedactEventJSON(js)
		if rerr != nil {
			panic(rerr)
		}
		redacted, _ = sjson.DeleteBytes(redacted, "signatures")
		redacted, _ = sjson.DeleteBytes(redacted, "unsigned")
		signed, serr := gmsl.SignJSON(origin, keyID, strayKey.priv, redacted)
		if serr != nil {
			panic(serr)
		}
		out, err = sjson.SetBytes(js, path, gjson.GetBytes(signed, path).String())
		w.variants = append(w.variants, "badsig=other-key")
	case 2: // the signature of the server is gone
		out, err = sjson.DeleteBytes(js, "signatures."+strings.ReplaceAll(origin, ".", `\.`))
		w.variants = append(w.variants, "badsig=removed")
	default: // all zero signature
		out, err = sjson.SetBytes(js, path, base64.RawStdEncoding.EncodeToString(make([]byte, ed25519.SignatureSize)))
		w.variants = append(w.variants, "badsig=zero")
	}
	if err != nil {
		panic(err)
	}
	return out
}

// malformed returns bytes that are not a parsable event.
func (w *world) malformed(p gmsl.PDU) []byte {
	js := p.JSON()
	n := 5
	if isDomainless(string(w.ver)) && p.Type() == "m.room.create" {
		n = 4 // a room_id on a room version 12 create event is not a parse error
	}
	switch w.rng.Intn(n) {
	case 0:
		w.variants = append(w.variants, "malformed=truncated")
		return js[:len(js)/2]
	case 1:
		w.variants = append(w.variants, "malformed=type-number")
		out, _ := sjson.SetBytes(js, "type", 5)
		return out
	case 2:
		w.variants = append(w.variants, "malformed=array")
		return []byte(`["not","an","event"]`)
	case 3:
		w.variants = append(w.variants, "malformed=headered")
		out, _ := sjson.SetBytes(js, "_room_version", string(w.ver))
		return out
	default:
		w.variants = append(w.variants, "malformed=bad-room-id")
		out, _ := sjson.SetBytes(js, "room_id", "no-sigil")
		return out
	}
}

// respell returns the bytes of an event as another server might send them: with an "unsigned" object (never
// signed, never hashed: it must have no effect) and / or with insignificant white space.
func (w *world) respell(js []byte) []byte {
	switch w.rng.Intn(8) {
	case 0:
		out, err := sjson.SetRawBytes(js, "unsigned", []byte(`{"age_ts":1577836800000,"prev_content":{"membership":"ban"},"replaces_state":"$x:hs1"}`))
		if err == nil {
			w.variants = append(w.variants, "wire=unsigned")
			return out
		}
	case 1:
		var buf bytes.Buffer
		if err := json.Indent(&buf, js, "", "  "); err == nil {
			w.variants = append(w.variants, "wire=whitespace")
			return buf.Bytes()
		}
	}
	return js
}

// wireBytes: the bytes of one PDU of an answer.
func (w *world) wireBytes(p pdu) []byte {
	switch p.W {
	case "badsig":
		return w.badSignature(w.r.ev(p.ID), w.pdu[p.ID])
	case "malformed":
		return w.malformed(w.pdu[p.ID])
	case "foreign":
		return w.respell(w.pdu[100+p.ID].JSON())
	}
	return w.respell(w.pdu[p.ID].JSON())
}

func (w *world) describe() string {
	var parts []string
	for _, e := range w.r.Events {
		s := fmt.Sprintf("%d:%s(%s", e.ID, e.Type, e.Sender)
		if e.Type == "member" {
			s += "->" + e.SKey + " " + e.Membership
		}
		if e.Type == "pl" {
			var us []string
			for u, rk := range e.PLU {
				if rk >= 0 {
					us = append(us, fmt.Sprintf("%s=%d", u, roomLadder[rk]))
				}
			}
			sort.Strings(us)
			s += " " + strings.Join(us, ",")
		}
		if e.Type == "jr" {
			s += " " + e.JR
		}
		s += fmt.Sprintf(") prev=%v auth=%v", e.Prev, e.Auth)
		if e.F != "none" {
			s += " FAULT=" + e.F
		}
		if e.P != "returns" {
			s += " PROVIDER=" + e.P
		}
		if e.SP != "exact" {
			s += " STATEPROVIDER=" + e.SP
		}
		s += " worth=" + w.r.Cls[e.ID-1]
		parts = append(parts, s)
	}
	return strings.Join(parts, "; ")
}
