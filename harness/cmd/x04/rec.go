package main

import (
	"bytes"
	"encoding/json"
	"fmt"
	"sort"
	"strings"
)

// ev is one event of the room as seen on the wire (Room.tla record with the world's faults applied).
type ev struct {
	ID         int            `json:"id"`
	Type       string         `json:"type"`
	Sender     string         `json:"sender"`
	SKey       string         `json:"skey"`
	Membership string         `json:"membership"`
	PLU        map[string]int `json:"plu"`
	JR         string         `json:"jr"`
	Prev       []int          `json:"prev"`
	Auth       []int          `json:"auth"`
	Depth      int64          `json:"depth"`
	TS         int64          `json:"ts"`
	F          string         `json:"f"`  // none disallowed wrongroom
	P          string         `json:"p"`  // event provider: returns nothing errors
	SP         string         `json:"sp"` // state provider: exact lagging nothing ids_error state_error
}

// intSets decodes a TLC sequence of sets (<<>> is printed as []).
type intSets [][]int

func (s *intSets) UnmarshalJSON(b []byte) error {
	b = bytes.TrimSpace(b)
	var raw []json.RawMessage
	if err := json.Unmarshal(b, &raw); err != nil {
		return err
	}
	out := make([][]int, len(raw))
	for i, r := range raw {
		if err := json.Unmarshal(r, &out[i]); err != nil {
			return err
		}
	}
	*s = out
	return nil
}

// pdu is one PDU of an answer: event id of the room carried as w (none badsig malformed foreign).
type pdu struct {
	ID int    `json:"id"`
	W  string `json:"w"`
}

func (p pdu) key() int {
	if p.W == "foreign" {
		return 100 + p.ID
	}
	return p.ID
}

// ask is one entry of the behaviour's history: the request the specification expects and the answer.
type ask struct {
	Server  string   `json:"server"`
	Limit   int      `json:"limit"`
	From    []int    `json:"from"`
	Kind    string   `json:"kind"` // error empty full short older over gap cancel
	FK      string   `json:"fk"`   // wire fault of one PDU: none badsig malformed dup sigcopy foreign
	FJ      int      `json:"fj"`
	PDUs    []pdu    `json:"pdus"`
	Classes []string `json:"classes"` // per PDU: the first failing check (ok sig chain rules invalid)
	Under   []string `json:"under"`   // per PDU: the first failing check, the signature apart
	SPCalls []int    `json:"spcalls"`
	Failed  bool     `json:"failed"`
}

type outcome struct {
	Events   []int  `json:"events"`
	Err      string `json:"err"` // none transport cancelled
	ErrLoose bool   `json:"errloose"`
}

// rec is one Backfill_gen record.
type rec struct {
	Ver     string   `json:"ver"`
	Events  []ev     `json:"events"`
	SB      intSets  `json:"sb"`  // per event: the state the state provider reports before it
	Cls     []string `json:"cls"` // per event: first failing check at the requester, the signature apart
	From    []int    `json:"from"`
	Limit   int      `json:"limit"`
	Servers []string `json:"servers"`
	Cancel  string   `json:"cancel"` // no early inflight
	Dev     int      `json:"dev"`
	SAE     int      `json:"sae"`
	Asks    []ask    `json:"asks"`
	Out     outcome  `json:"out"`
	SigTol  string   `json:"sigtol"`
}

func (r *rec) ev(id int) *ev { return &r.Events[id-1] }

func typeOf(e *ev) string {
	if e.Type == "member" {
		return "member-" + e.Membership
	}
	return e.Type
}

// scenarioKey is the canonical abstract description of a behaviour: which fromEventIDs, how many servers, what
// each asked server did (slice kind, wire fault and what the faulted event is worth), the deviations of the world,
// cancellation.  No version, no IDs, no limit value.
func (r *rec) scenarioKey() string { return r.scenarioKeyOf(true) }

// protocolKey: the same without the carriage faults and the deviations of the world (for disagreements about who is
// asked, the server lookup and the error report, which do not depend on them beyond what the answers' kinds say).
func (r *rec) protocolKey() string { return r.scenarioKeyOf(false) }

func (r *rec) scenarioKeyOf(full bool) string {
	from := "tip"
	switch len(r.From) {
	case 0:
		from = "none"
	case 2:
		from = "fork"
	}
	var parts []string
	for _, a := range r.Asks {
		s := a.Kind
		if a.FK != "none" && full {
			s += "/" + a.FK
			if a.FJ >= 1 && a.FJ <= len(a.Under) && a.FK != "malformed" && a.FK != "foreign" {
				s += "@" + a.Under[a.FJ-1]
			}
		}
		parts = append(parts, s)
	}
	asks := strings.Join(parts, "+")
	if asks == "" {
		asks = "-"
	}
	var world []string
	for i := range r.Events {
		e := &r.Events[i]
		if e.F != "none" {
			world = append(world, "F:"+e.F+":"+typeOf(e))
		}
		if e.P != "returns" {
			world = append(world, "P:"+e.P+":"+typeOf(e))
		}
		if e.SP != "exact" {
			world = append(world, "S:"+e.SP+":"+typeOf(e))
		}
	}
	sort.Strings(world)
	wk := strings.Join(world, ",")
	if wk == "" {
		wk = "-"
	}
	lim := "limit>0"
	if r.Limit == 0 {
		lim = "limit=0"
	}
	if !full {
		return fmt.Sprintf("from=%s|%s|servers=%d|asks=%s|cancel=%s", from, lim, len(r.Servers), asks, r.Cancel)
	}
	return fmt.Sprintf("from=%s|%s|servers=%d|asks=%s|world=%s|cancel=%s", from, lim, len(r.Servers), asks, wk, r.Cancel)
}

func sortedCopy(x []int) []int {
	out := append([]int{}, x...)
	sort.Ints(out)
	return out
}

func sameInts(a, b []int) bool {
	if len(a) != len(b) {
		return false
	}
	for i := range a {
		if a[i] != b[i] {
			return false
		}
	}
	return true
}

func setOf(x []int) map[int]bool {
	m := map[int]bool{}
	for _, i := range x {
		m[i] = true
	}
	return m
}
