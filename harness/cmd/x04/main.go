// Command x04 binds spec/Backfill.tla (growth specification X04) to the real gomatrixserverlib.RequestBackfill
// together with EventsLoader.LoadAndVerify as it is used there.
//
//	x04 x04 -in records.ndjson   replay Backfill_gen.tla behaviours (spec -> code)
//
// Every record is one completed behaviour of the protocol: a room history (Room.tla) with the faults of the
// world, the caller's arguments, the ordered server list, and per server asked what it answered PDU by PDU.
// The room is materialised with REAL events (built and signed by the real EventBuilder with the ed25519 key of
// the sender's server, citing the real IDs of the earlier events), a twin of it in a second room serves the
// "valid event of another room" answers; signatures are verified by a real KeyRing over an in-memory key
// database; a scripted BackfillRequester plays the servers, the event provider and the state provider and
// records every call.  ONE real RequestBackfill call per record; compared: the Backfill calls (server, limit,
// from IDs, in order), the ServersAtEvent calls, the returned events (set, no duplicates, topological order),
// error / no error, and the order and extent of the StateProvider calls per transaction.
package main

import (
	"encoding/json"
	"io"

	"github.com/sirupsen/logrus"

	"verifharness/hx"
)

func init() {
	hx.Register("x04", "replay Backfill_gen.tla behaviours against RequestBackfill", func(a *hx.Args) error {
		return hx.ReplayAll(a, func(i int, raw json.RawMessage) hx.Result { return replayOne(i, raw, a.Seed) })
	})
}

func main() {
	logrus.SetOutput(io.Discard)
	logrus.SetLevel(logrus.PanicLevel)
	hx.Main()
}
