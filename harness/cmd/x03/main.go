// Command x03 binds spec/FedAPI.tla (X03, growth: the outbound federation client end to end) to the real
// fclient.FederationClient: every FedAPI_gen.tla record is one call made through the real client against an
// in-process receiving server (TLS on loopback, reached through the resolver / well-known seams).
//
//	x03 x03 -in records.ndjson [-seed N]
package main

import (
	"encoding/json"
	"fmt"
	"io"
	"os"

	"github.com/sirupsen/logrus"

	"verifharness/hx"
)

// machinery reports a problem of the harness itself: the process exits 3, which the driver turns into a machinery
// error - never into a verdict.  Panics of the library under test are left to hx.Safely and are verdicts.
func machinery(msg string) {
	fmt.Fprintln(os.Stderr, "x03 harness:", msg)
	os.Exit(3)
}

func main() {
	logrus.SetOutput(io.Discard) // VerifyHTTPRequest and the client log every refusal / failure
	hx.Register("x03", "replay FedAPI_gen.tla records against the real federation client and VerifyHTTPRequest", func(a *hx.Args) error {
		return hx.ReplayAll(a, func(i int, raw json.RawMessage) hx.Result { return replay(i, a.Seed, raw) })
	})
	hx.Main()
}
