package main

// The seams through which the client under test reaches "the network" - the same two process-wide
// seams harness/cmd/c16 (and the repository's own resolve_test.go) use:
//
//   - net.DefaultResolver    SRV lookups of ResolveServer and the A lookups of every dialer: replaced by a
//                            resolver that talks to an in-process DNS server on a loopback UDP port
//   - http.DefaultTransport  LookupWellKnown builds an http.Client without a transport
//
// Every record owns the names <role>.<label>.x03.test (role d = the destination's server name, w = the host a
// well-known file delegates to, t = the target of an SRV record), so records replay in parallel against the
// process-wide stubs.  The federation requests themselves travel over real TLS to an httptest server on
// 127.0.0.1 that belongs to the record.

import (
	"bytes"
	"context"
	"fmt"
	"io"
	"net"
	"net/http"
	"regexp"
	"strconv"
	"strings"
	"sync"
	"sync/atomic"
	"syscall"

	"github.com/miekg/dns"
)

type zone struct {
	mode   string // "port" "ip" "wk" "srv"
	port   int
	label  string
	wkHits int32
	stray  int32
}

var (
	zones    sync.Map // label -> *zone
	stubOnce sync.Once
	stubAddr string
	nameRe   = regexp.MustCompile(`(?:^|\.)([a-z0-9]+)\.(r[0-9]+x[0-9a-f]+)\.x03\.test$`)
)

func zoneOf(host string) (role string, z *zone) {
	h := strings.TrimSuffix(strings.ToLower(host), ".")
	m := nameRe.FindStringSubmatch(h)
	if m == nil {
		return "", nil
	}
	v, ok := zones.Load(m[2])
	if !ok {
		return "", nil
	}
	return m[1], v.(*zone)
}

type stubDNS struct{}

func (stubDNS) ServeDNS(w dns.ResponseWriter, r *dns.Msg) {
	msg := dns.Msg{}
	msg.SetReply(r)
	msg.Authoritative = true
	if len(r.Question) != 1 {
		msg.Rcode = dns.RcodeFormatError
		_ = w.WriteMsg(&msg)
		return
	}
	q := r.Question[0]
	name := strings.ToLower(q.Name)
	role, z := zoneOf(name)
	host := strings.TrimSuffix(name, ".")
	switch {
	case z == nil:
		msg.Rcode = dns.RcodeNameError // search-list expansions and the like
	case q.Qtype == dns.TypeSRV:
		if z.mode == "srv" && host == "_matrix-fed._tcp.d."+z.label+".x03.test" {
			msg.Answer = append(msg.Answer, &dns.SRV{
				Hdr:      dns.RR_Header{Name: q.Name, Rrtype: dns.TypeSRV, Class: dns.ClassINET, Ttl: 60},
				Priority: 10, Weight: 5, Port: uint16(z.port), Target: "t." + z.label + ".x03.test.",
			})
		} else {
			msg.Rcode = dns.RcodeNameError
		}
	case strings.HasPrefix(host, "_"):
		msg.Rcode = dns.RcodeNameError
	case role == "d" || role == "w" || role == "t":
		if host != role+"."+z.label+".x03.test" {
			msg.Rcode = dns.RcodeNameError
		} else if q.Qtype == dns.TypeA {
			msg.Answer = append(msg.Answer, &dns.A{
				Hdr: dns.RR_Header{Name: q.Name, Rrtype: dns.TypeA, Class: dns.ClassINET, Ttl: 60},
				A:   net.IPv4(127, 0, 0, 1).To4(),
			})
		} // any other type: the name exists, no data
	default:
		msg.Rcode = dns.RcodeNameError
	}
	_ = w.WriteMsg(&msg)
}

type stubTransport struct{}

func (stubTransport) RoundTrip(req *http.Request) (*http.Response, error) {
	role, z := zoneOf(req.URL.Hostname())
	if z == nil {
		return nil, fmt.Errorf("x03 stub: no such host %q", req.URL.Hostname())
	}
	if req.URL.Scheme != "https" || req.URL.Path != "/.well-known/matrix/server" || req.Method != "GET" {
		atomic.AddInt32(&z.stray, 1)
		return nil, fmt.Errorf("x03 stub: unexpected request %s %s through http.DefaultTransport", req.Method, req.URL)
	}
	atomic.AddInt32(&z.wkHits, 1)
	status, body := 404, []byte(`{"errcode":"M_NOT_FOUND"}`)
	if z.mode == "wk" && role == "d" {
		status, body = 200, []byte(`{"m.server":"w.`+z.label+`.x03.test:`+strconv.Itoa(z.port)+`"}`)
	}
	h := http.Header{"Content-Type": {"application/json"}, "Content-Length": {strconv.Itoa(len(body))}}
	return &http.Response{
		Status: strconv.Itoa(status) + " " + http.StatusText(status), StatusCode: status,
		Proto: "HTTP/1.1", ProtoMajor: 1, ProtoMinor: 1,
		Header: h, Body: io.NopCloser(bytes.NewReader(body)), ContentLength: int64(len(body)), Request: req,
	}, nil
}

// installStubs replaces net.DefaultResolver and http.DefaultTransport for the whole process.
func installStubs() {
	stubOnce.Do(func() {
		pc, err := net.ListenPacket("udp", "127.0.0.1:0")
		if err != nil {
			machinery(fmt.Sprintf("cannot open the loopback DNS stub: %v", err))
		}
		stubAddr = pc.LocalAddr().String()
		started := make(chan struct{})
		srv := &dns.Server{PacketConn: pc, Handler: stubDNS{}, NotifyStartedFunc: func() { close(started) }}
		go func() {
			if err := srv.ActivateAndServe(); err != nil {
				machinery(fmt.Sprintf("DNS stub: %v", err))
			}
		}()
		<-started
		net.DefaultResolver = &net.Resolver{
			PreferGo: true,
			Dial: func(ctx context.Context, network, address string) (net.Conn, error) {
				var d net.Dialer
				return d.DialContext(ctx, "udp", stubAddr)
			},
		}
		http.DefaultTransport = stubTransport{}
	})
}

// reservedPort binds a loopback TCP port without listening on it: connections are refused, and nobody else in
// this process (or another) is handed the port while the record runs.
func reservedPort() (port int, release func(), err error) {
	fd, err := syscall.Socket(syscall.AF_INET, syscall.SOCK_STREAM, 0)
	if err != nil {
		return 0, nil, err
	}
	if err = syscall.Bind(fd, &syscall.SockaddrInet4{Addr: [4]byte{127, 0, 0, 1}}); err != nil {
		_ = syscall.Close(fd)
		return 0, nil, err
	}
	sa, err := syscall.Getsockname(fd)
	if err != nil {
		_ = syscall.Close(fd)
		return 0, nil, err
	}
	return sa.(*syscall.SockaddrInet4).Port, func() { _ = syscall.Close(fd) }, nil
}
