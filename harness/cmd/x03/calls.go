package main

// The Go side of the call table: how each call of FedAPI.tla is made through the real client API, which JSON body
// the Matrix server-server API prescribes for it (written from the API's request schemas), what a well-formed
// answer of each response shape looks like and what the typed result must then contain.
//
// Method, path and query are NOT here: they come from the TLC record (FedAPI.tla's table).

import (
	"bytes"
	"context"
	"encoding/json"
	"fmt"
	"io"
	"math/rand"
	"net/http"
	"reflect"
	"strings"

	gmsl "github.com/matrix-org/gomatrixserverlib"
	"github.com/matrix-org/gomatrixserverlib/fclient"
	"github.com/matrix-org/gomatrixserverlib/spec"
)

type env struct {
	rec    *recT
	rnd    *rand.Rand
	label  string
	dest   string // the destination's server name, as given to the call
	origin string // the server name the `origin` argument carries
	dom    string // the domain of identifiers
	vals   map[string][]string
	limit  int
	depth  int
	ts     int64
	entry  int64
	fc     fclient.FederationClient
	ctx    context.Context

	ev       gmsl.PDU
	evJSON   []byte
	proto    gmsl.ProtoEvent
	txn      gmsl.Transaction
	stripped []gmsl.InviteStrippedState
	uid      *spec.UserID
}

func (e *env) v(slot string) string {
	x := e.vals[slot]
	if len(x) != 1 {
		machinery(fmt.Sprintf("%s: slot %s is not a scalar: %q", e.rec.Call, slot, x))
	}
	return x[0]
}

func (e *env) list(slot string) []string {
	x := e.vals[slot]
	if x == nil {
		return []string{}
	}
	return x
}

func (e *env) vers() []gmsl.RoomVersion {
	var out []gmsl.RoomVersion
	for _, v := range e.vals["vers"] {
		out = append(out, gmsl.RoomVersion(v))
	}
	return out
}

func mustJSON(v interface{}) []byte {
	b, err := json.Marshal(v)
	if err != nil {
		machinery("json.Marshal: " + err.Error())
	}
	return b
}

func parseJSON(b []byte) interface{} {
	var v interface{}
	d := json.NewDecoder(bytes.NewReader(b))
	d.UseNumber()
	if err := d.Decode(&v); err != nil {
		machinery(fmt.Sprintf("harness JSON does not parse: %v: %s", err, b))
	}
	return v
}

// buildEvent makes a real PDU (room version 10, trusted JSON) with the given room and event ID.
func (e *env) buildEvent(membership string) string {
	room, evID := e.v("roomId"), e.v("eventId")
	sender := "@inviter:" + e.origin
	target := "@" + run(e.rnd, plainChars, 3, 6) + ":" + e.dom
	js := mustJSON(map[string]interface{}{
		"type": "m.room.member", "room_id": room, "sender": sender, "state_key": target,
		"content":          map[string]interface{}{"membership": membership},
		"origin_server_ts": e.ts, "depth": 7 + e.rnd.Intn(50),
		"prev_events": []string{"$" + run(e.rnd, plainChars, 8, 8)}, "auth_events": []string{"$" + run(e.rnd, plainChars, 8, 8)},
		"hashes":     map[string]string{"sha256": "2jmj7l5rSw0yVb/vlWAYkK/YBwk"},
		"signatures": map[string]interface{}{e.origin: map[string]string{"ed25519:k": "c2ln"}},
	})
	ev, err := gmsl.MustGetRoomVersion(gmsl.RoomVersionV10).NewEventFromTrustedJSONWithEventID(evID, js, false)
	if err != nil {
		return "event: " + err.Error()
	}
	if _, err := spec.NewRoomID(room); err != nil {
		return "room ID: " + err.Error()
	}
	e.ev, e.evJSON = ev, ev.JSON()
	return ""
}

func (e *env) buildProto(room, stateKey string) {
	e.proto = gmsl.ProtoEvent{
		SenderID: "@inviter:" + e.origin, RoomID: room, Type: "m.room.member", StateKey: &stateKey,
		PrevEvents: []string{"$p" + run(e.rnd, plainChars, 4, 4)}, AuthEvents: []string{"$a" + run(e.rnd, plainChars, 4, 4)},
		Depth: int64(3 + e.rnd.Intn(20)), Content: spec.RawJSON(`{"membership":"invite"}`),
	}
}

func (e *env) buildStripped() {
	var ss gmsl.InviteStrippedState
	if err := json.Unmarshal([]byte(`{"type":"m.room.name","state_key":"","content":{"name":"N"},"sender":"@a:`+e.dom+`"}`), &ss); err != nil {
		machinery("stripped state: " + err.Error())
	}
	e.stripped = []gmsl.InviteStrippedState{ss}
}

func (e *env) buildTxn(txnID string) {
	e.txn = gmsl.Transaction{
		TransactionID: gmsl.TransactionID(txnID), Origin: spec.ServerName(e.origin), Destination: spec.ServerName(e.dest),
		OriginServerTS: spec.Timestamp(e.ts),
		PDUs:           []json.RawMessage{json.RawMessage(`{"type":"m.room.message","content":{"body":"` + run(e.rnd, plainChars, 3, 9) + `"}}`)},
	}
}

func (e *env) buildUser(id string) string {
	u, err := spec.NewUserID(id, true)
	if err != nil {
		return "user ID: " + err.Error()
	}
	e.uid = u
	return ""
}

type callDef struct {
	// prep builds the typed arguments; a non-empty return = the library's constructors refuse this identifier
	prep func(e *env) string
	do   func(e *env) (interface{}, error)
	// body = the request body the API prescribes; extra = keys the sender may add
	body func(e *env) (want interface{}, extra []string)
}

type obj = map[string]interface{}

func o(e *env) spec.ServerName { return spec.ServerName(e.origin) }
func d(e *env) spec.ServerName { return spec.ServerName(e.dest) }

var rv10 = gmsl.RoomVersionV10

func evBody(e *env) (interface{}, []string) { return parseJSON(e.evJSON), nil }

var calls = map[string]callDef{
	"SendTransaction": {
		prep: func(e *env) string { e.buildTxn(e.v("txnId")); return "" },
		do:   func(e *env) (interface{}, error) { return e.fc.SendTransaction(e.ctx, e.txn) },
		body: func(e *env) (interface{}, []string) {
			return obj{"origin": e.origin, "origin_server_ts": json.Number(fmt.Sprint(e.ts)), "pdus": []interface{}{parseJSON(e.txn.PDUs[0])}}, []string{"edus"}
		},
	},
	"GetEvent": {
		do: func(e *env) (interface{}, error) { return e.fc.GetEvent(e.ctx, o(e), d(e), e.v("eventId")) },
	},
	"GetEventAuth": {
		do: func(e *env) (interface{}, error) {
			return e.fc.GetEventAuth(e.ctx, o(e), d(e), rv10, e.v("roomId"), e.v("eventId"))
		},
	},
	"LookupState": {
		do: func(e *env) (interface{}, error) {
			return e.fc.LookupState(e.ctx, o(e), d(e), e.v("roomId"), e.v("eventId"), rv10)
		},
	},
	"LookupStateIDs": {
		do: func(e *env) (interface{}, error) {
			return e.fc.LookupStateIDs(e.ctx, o(e), d(e), e.v("roomId"), e.v("eventId"))
		},
	},
	"LookupMissingEvents": {
		do: func(e *env) (interface{}, error) {
			return e.fc.LookupMissingEvents(e.ctx, o(e), d(e), e.v("roomId"), fclient.MissingEvents{
				Limit: e.limit, MinDepth: e.depth, EarliestEvents: e.list("earliest"), LatestEvents: e.list("latest"),
			}, rv10)
		},
		body: func(e *env) (interface{}, []string) {
			return obj{"limit": num(e.limit), "min_depth": num(e.depth), "earliest_events": strs(e.list("earliest")), "latest_events": strs(e.list("latest"))}, nil
		},
	},
	"MakeJoin": {
		do: func(e *env) (interface{}, error) { return e.fc.MakeJoin(e.ctx, o(e), d(e), e.v("roomId"), e.v("userId")) },
	},
	"SendJoin": {
		prep: func(e *env) string { return e.buildEvent("join") },
		do:   func(e *env) (interface{}, error) { return e.fc.SendJoin(e.ctx, o(e), d(e), e.ev) },
		body: evBody,
	},
	"SendJoinPartialState": {
		prep: func(e *env) string { return e.buildEvent("join") },
		do:   func(e *env) (interface{}, error) { return e.fc.SendJoinPartialState(e.ctx, o(e), d(e), e.ev) },
		body: evBody,
	},
	"MakeLeave": {
		do: func(e *env) (interface{}, error) { return e.fc.MakeLeave(e.ctx, o(e), d(e), e.v("roomId"), e.v("userId")) },
	},
	"SendLeave": {
		prep: func(e *env) string { return e.buildEvent("leave") },
		do:   func(e *env) (interface{}, error) { return nil, e.fc.SendLeave(e.ctx, o(e), d(e), e.ev) },
		body: evBody,
	},
	"SendInvite": {
		prep: func(e *env) string { return e.buildEvent("invite") },
		do: func(e *env) (interface{}, error) {
			c, ok := e.fc.(interface {
				SendInvite(ctx context.Context, origin, s spec.ServerName, event gmsl.PDU) (fclient.RespInvite, error)
			})
			if !ok {
				machinery("the federation client has no SendInvite method")
			}
			return c.SendInvite(e.ctx, o(e), d(e), e.ev)
		},
		body: evBody,
	},
	"SendInviteV2": {
		prep: func(e *env) string { e.buildStripped(); return e.buildEvent("invite") },
		do: func(e *env) (interface{}, error) {
			req, err := fclient.NewInviteV2Request(e.ev, e.stripped)
			if err != nil {
				machinery("NewInviteV2Request: " + err.Error())
			}
			return e.fc.SendInviteV2(e.ctx, o(e), d(e), req)
		},
		body: func(e *env) (interface{}, []string) {
			// the older variant (v1) carries the bare event
			return obj{"room_version": "10", "invite_room_state": parseJSON(mustJSON(e.stripped)), "event": parseJSON(e.evJSON)}, nil
		},
	},
	"SendInviteV3": {
		prep: func(e *env) string {
			e.buildStripped()
			e.buildProto(e.v("roomId"), e.v("userId"))
			return e.buildUser(e.v("userId"))
		},
		do: func(e *env) (interface{}, error) {
			req, err := fclient.NewInviteV3Request(e.proto, rv10, e.stripped)
			if err != nil {
				machinery("NewInviteV3Request: " + err.Error())
			}
			return e.fc.SendInviteV3(e.ctx, o(e), d(e), req, *e.uid)
		},
		body: func(e *env) (interface{}, []string) {
			return obj{"room_version": "10", "invite_room_state": parseJSON(mustJSON(e.stripped)), "event": parseJSON(mustJSON(e.proto))}, nil
		},
	},
	"MakeKnock": {
		do: func(e *env) (interface{}, error) {
			return e.fc.MakeKnock(e.ctx, o(e), d(e), e.v("roomId"), e.v("userId"), e.vers())
		},
	},
	"SendKnock": {
		prep: func(e *env) string { return e.buildEvent("knock") },
		do:   func(e *env) (interface{}, error) { return e.fc.SendKnock(e.ctx, o(e), d(e), e.ev) },
		body: evBody,
	},
	"Peek": {
		do: func(e *env) (interface{}, error) {
			return e.fc.Peek(e.ctx, o(e), d(e), e.v("roomId"), e.v("peekId"), e.vers())
		},
		body: func(e *env) (interface{}, []string) { return obj{}, nil },
	},
	"Backfill": {
		do: func(e *env) (interface{}, error) {
			return e.fc.Backfill(e.ctx, o(e), d(e), e.v("roomId"), e.limit, e.list("from"))
		},
	},
	"GetUserDevices": {
		do: func(e *env) (interface{}, error) { return e.fc.GetUserDevices(e.ctx, o(e), d(e), e.v("userId")) },
	},
	"ClaimKeys": {
		do: func(e *env) (interface{}, error) {
			return e.fc.ClaimKeys(e.ctx, o(e), d(e), map[string]map[string]string{e.v("user"): {e.v("device"): "signed_curve25519"}})
		},
		body: func(e *env) (interface{}, []string) {
			return obj{"one_time_keys": obj{e.v("user"): obj{e.v("device"): "signed_curve25519"}}}, []string{"timeout"}
		},
	},
	"QueryKeys": {
		do: func(e *env) (interface{}, error) {
			return e.fc.QueryKeys(e.ctx, o(e), d(e), map[string][]string{e.v("user"): e.vals["devices"]}) // nil for the empty list
		},
		body: func(e *env) (interface{}, []string) {
			return obj{"device_keys": obj{e.v("user"): strs(e.list("devices"))}}, []string{"timeout"}
		},
	},
	"LookupProfile": {
		do: func(e *env) (interface{}, error) {
			return e.fc.LookupProfile(e.ctx, o(e), d(e), e.v("userId"), e.v("field"))
		},
	},
	"LookupRoomAlias": {
		do: func(e *env) (interface{}, error) { return e.fc.LookupRoomAlias(e.ctx, o(e), d(e), e.v("alias")) },
	},
	"GetPublicRooms": {
		do: func(e *env) (interface{}, error) {
			return e.fc.GetPublicRooms(e.ctx, o(e), d(e), e.limit, e.v("since"), e.allNetworks(), e.v("tpid"))
		},
		body: func(e *env) (interface{}, []string) { return e.publicRoomsBody(""), nil },
	},
	"GetPublicRoomsFiltered": {
		do: func(e *env) (interface{}, error) {
			return e.fc.GetPublicRoomsFiltered(e.ctx, o(e), d(e), e.limit, e.v("since"), e.v("filter"), e.allNetworks(), e.v("tpid"))
		},
		body: func(e *env) (interface{}, []string) { return e.publicRoomsBody(e.v("filter")), nil },
	},
	"ExchangeThirdPartyInvite": {
		prep: func(e *env) string { e.buildProto(e.v("roomId"), "@invitee:"+e.dom); return "" },
		do: func(e *env) (interface{}, error) {
			return nil, e.fc.ExchangeThirdPartyInvite(e.ctx, o(e), d(e), e.proto)
		},
		body: func(e *env) (interface{}, []string) {
			return obj{"type": "m.room.member", "room_id": e.v("roomId"), "sender": e.proto.SenderID, "state_key": *e.proto.StateKey,
				"content": parseJSON(e.proto.Content)}, []string{"prev_events", "auth_events", "depth"}
		},
	},
	"MSC2836EventRelationships": {
		do: func(e *env) (interface{}, error) {
			return e.fc.MSC2836EventRelationships(e.ctx, o(e), d(e), e.msc2836(), rv10)
		},
		body: func(e *env) (interface{}, []string) { return parseJSON(mustJSON(e.msc2836())), nil },
	},
	"RoomHierarchy": {
		do: func(e *env) (interface{}, error) {
			return e.fc.RoomHierarchy(e.ctx, o(e), d(e), e.v("roomId"), e.rec.Flag)
		},
	},
	"GetServerKeys": {
		do: func(e *env) (interface{}, error) { return e.fc.GetServerKeys(e.ctx, d(e)) },
	},
	"LookupServerKeys": {
		do: func(e *env) (interface{}, error) {
			return e.fc.LookupServerKeys(e.ctx, d(e), map[gmsl.PublicKeyLookupRequest]spec.Timestamp{
				{ServerName: spec.ServerName("target." + e.dom), KeyID: gmsl.KeyID(e.v("keyId"))}: spec.Timestamp(e.ts),
			})
		},
		body: func(e *env) (interface{}, []string) {
			crit := obj{}
			if k := e.v("keyId"); k != "" { // no key ID = every key of that server
				crit[k] = obj{"minimum_valid_until_ts": json.Number(fmt.Sprint(e.ts))}
			}
			return obj{"server_keys": obj{"target." + e.dom: crit}}, nil
		},
	},
	"GetVersion": {
		do: func(e *env) (interface{}, error) {
			c, ok := e.fc.(interface {
				GetVersion(ctx context.Context, s spec.ServerName) (fclient.Version, error)
			})
			if !ok {
				machinery("the federation client has no GetVersion method")
			}
			return c.GetVersion(e.ctx, d(e))
		},
	},
	"P2PSendTransactionToRelay": {
		prep: func(e *env) string {
			e.buildTxn(e.v("txnId"))
			e.txn.Destination = spec.ServerName("final." + e.dom)
			return e.buildUser(e.v("userId"))
		},
		do: func(e *env) (interface{}, error) {
			_, err := e.fc.P2PSendTransactionToRelay(e.ctx, *e.uid, e.txn, d(e))
			return nil, err
		},
		body: func(e *env) (interface{}, []string) {
			return obj{"pdus": []interface{}{parseJSON(e.txn.PDUs[0])}}, []string{"edus", "origin", "origin_server_ts"}
		},
	},
	"P2PGetTransactionFromRelay": {
		prep: func(e *env) string { return e.buildUser(e.v("userId")) },
		do: func(e *env) (interface{}, error) {
			return e.fc.P2PGetTransactionFromRelay(e.ctx, *e.uid, fclient.RelayEntry{EntryID: e.entry}, d(e))
		},
		body: func(e *env) (interface{}, []string) { return obj{"entry_id": json.Number(fmt.Sprint(e.entry))}, nil },
	},
	"DownloadMedia": {
		do: func(e *env) (interface{}, error) {
			r, err := e.fc.DownloadMedia(e.ctx, o(e), d(e), e.v("mediaId"))
			return rawOf(r), err
		},
	},
	"LookupUserInfo": {
		do: func(e *env) (interface{}, error) {
			c, ok := e.fc.(interface {
				LookupUserInfo(ctx context.Context, matrixServer spec.ServerName, token string) (fclient.UserInfo, error)
			})
			if !ok {
				machinery("the federation client has no LookupUserInfo method")
			}
			return c.LookupUserInfo(e.ctx, d(e), e.v("token"))
		},
	},
	"CreateMediaDownloadRequest": {
		do: func(e *env) (interface{}, error) {
			c, ok := e.fc.(interface {
				CreateMediaDownloadRequest(ctx context.Context, matrixServer spec.ServerName, mediaID string) (*http.Response, error)
			})
			if !ok {
				machinery("the federation client has no CreateMediaDownloadRequest method")
			}
			r, err := c.CreateMediaDownloadRequest(e.ctx, d(e), e.v("mediaId"))
			return rawOf(r), err
		},
	},
}

type rawResult struct {
	Status int
	Body   []byte
}

func rawOf(r *http.Response) interface{} {
	if r == nil {
		return nil
	}
	defer r.Body.Close() // nolint: errcheck
	b, _ := io.ReadAll(r.Body)
	return &rawResult{Status: r.StatusCode, Body: b}
}

func num(n int) json.Number { return json.Number(fmt.Sprint(n)) }
func strs(xs []string) []interface{} {
	out := make([]interface{}, 0, len(xs))
	for _, x := range xs {
		out = append(out, x)
	}
	return out
}

// third_party_instance_id "can only be non-empty if includeAllNetworks is false" (doc comment): the flag of the
// record is honoured only where the two arguments may be combined
func (e *env) allNetworks() bool { return e.rec.Flag && e.v("tpid") == "" }

// POST /publicRooms: limit, since, filter{generic_search_term}, include_all_networks, third_party_instance_id - all optional
func (e *env) publicRoomsBody(filter string) interface{} {
	return &optionalBody{want: obj{
		"limit": num(e.limit), "since": e.v("since"), "include_all_networks": e.allNetworks(),
		"third_party_instance_id": e.v("tpid"), "filter": obj{"generic_search_term": filter},
	}}
}

// optionalBody: every member is optional - one that has its zero value may be left out
type optionalBody struct{ want obj }

func (e *env) msc2836() fclient.MSC2836EventRelationshipsRequest {
	return fclient.MSC2836EventRelationshipsRequest{
		EventID: e.v("eventId"), MaxDepth: 3, MaxBreadth: 10, Limit: e.limit, DepthFirst: false, RecentFirst: true,
		IncludeParent: true, IncludeChildren: e.limit%2 == 0, Direction: "down", Batch: e.v("batch"), AutoJoin: true,
	}
}

// ------------------------------------------------------------------ answers

// okBody is a well-formed answer of the given shape (written from the API's response schemas).
func okBody(shape string, e *env) string {
	ev := `{"auth_events":["$a1"],"content":{"membership":"join"},"depth":5,"hashes":{"sha256":"2jmj7l5rSw0yVb/vlWAYkK/YBwk"},"origin_server_ts":1700000000000,"prev_events":["$p1"],"room_id":"!r:remote.example","sender":"@u:remote.example","signatures":{"remote.example":{"ed25519:a":"c2ln"}},"state_key":"@u:remote.example","type":"m.room.member"}`
	ev2 := `{"type":"m.room.create","room_id":"!r:remote.example","sender":"@c:remote.example","state_key":"","content":{"room_version":"10"},"depth":1}`
	proto := `{"type":"m.room.member","room_id":"!r:remote.example","sender":"@u:remote.example","state_key":"@u:remote.example","content":{"membership":"join"},"prev_events":["$p"],"auth_events":["$a"],"depth":5}`
	sj := `{"state":[` + ev + `],"auth_chain":[` + ev2 + `,` + ev + `],"origin":"remote.example","event":{"a":1},"members_omitted":true,"servers_in_room":["s1.example"]}`
	skeys := `{"server_name":"remote.example","valid_until_ts":1900000000000,"verify_keys":{"ed25519:a":{"key":"l/O9hxMVKB6Lg+3Hqf0FQQZhVESQcMzbPN1Cz2nM3og"}},"old_verify_keys":{},"signatures":{"remote.example":{"ed25519:a":"c2ln"}}}`
	txn := `{"origin":"remote.example","origin_server_ts":1234567,"pdus":[` + ev + `]}`
	switch shape {
	case "send":
		return `{"pdus":{"$ev1:x":{},"$ev2:x":{"error":"bad"}}}`
	case "txn":
		return txn
	case "eventauth":
		return `{"auth_chain":[` + ev2 + `,` + ev + `]}`
	case "state":
		return `{"pdus":[` + ev + `],"auth_chain":[` + ev2 + `,` + ev + `]}`
	case "stateids":
		return `{"pdu_ids":["$a","$b"],"auth_chain_ids":["$c"]}`
	case "missing":
		return `{"events":[` + ev + `]}`
	case "makejoin", "makeleave", "makeknock":
		return `{"room_version":"10","event":` + proto + `}`
	case "sendjoin":
		return sj
	case "sendjoinv1":
		return `[200,` + sj + `]`
	case "empty":
		return `{}`
	case "emptyv1":
		return `[200,{}]`
	case "invitev1":
		return `[200,{"event":{"x":1}}]`
	case "invitev2":
		return `{"event":{"x":1}}`
	case "sendknock":
		return `{"knock_room_state":[{"type":"m.room.name","state_key":"","content":{"name":"n"},"sender":"@a:remote.example"}]}`
	case "peek":
		return `{"renewal_interval":3600000,"state":[` + ev + `],"auth_chain":[` + ev2 + `],"room_version":"10","latest_event":` + ev + `}`
	case "devices":
		return `{"user_id":"@u:remote.example","stream_id":5,"devices":[{"device_id":"D1","device_display_name":"n","keys":{"user_id":"@u:remote.example","device_id":"D1","algorithms":["m.olm"],"keys":{"ed25519:D1":"AAAA"},"signatures":{}}}]}`
	case "claim":
		return `{"one_time_keys":{"@u:remote.example":{"D1":{"signed_curve25519:AAA":{"key":"k"}}}}}`
	case "querykeys":
		return `{"device_keys":{"@u:remote.example":{"D1":{"user_id":"@u:remote.example","device_id":"D1","algorithms":[],"keys":{},"signatures":{}}}},"master_keys":{},"self_signing_keys":{}}`
	case "profile":
		return `{"displayname":"Al","avatar_url":"mxc://x/y"}`
	case "directory":
		return `{"room_id":"!r:remote.example","servers":["s1.example","s2.example"]}`
	case "publicrooms":
		return `{"chunk":[{"room_id":"!r:remote.example","num_joined_members":3,"world_readable":true,"guest_can_join":false}],"next_batch":"nb","total_room_count_estimate":9}`
	case "msc2836":
		return `{"events":[` + ev + `],"next_batch":"nb","limited":true,"auth_chain":[` + ev2 + `]}`
	case "hierarchy":
		return `{"room":{"room_id":"!r:remote.example","num_joined_members":1,"world_readable":true,"guest_can_join":false,"children_state":[],"room_type":"m.space"},"children":[],"inaccessible_children":["!c:remote.example"]}`
	case "serverkeys":
		return skeys
	case "keyquery":
		return `{"server_keys":[` + skeys + `]}`
	case "version":
		return `{"server":{"name":"N","version":"V"}}`
	case "relaytxn":
		return `{"transaction":` + txn + `,"entry_id":7,"entries_queued":true}`
	case "userinfo":
		return `{"sub":"@user:` + e.dest + `"}`
	case "raw":
		return "MEDIA\x00\xff bytes"
	}
	machinery("unknown response shape " + shape)
	return ""
}

// wrongTop is valid JSON whose top-level kind is not the one the shape has.
func wrongTop(shape string) string {
	switch shape {
	case "sendjoinv1", "emptyv1", "invitev1":
		return `{"a":1}`
	}
	return `[1,2]`
}

// populated checks that the typed result carries what okBody(shape) says; "" = it does.
func populated(shape string, e *env, res interface{}) string {
	bad := func(format string, a ...interface{}) string { return fmt.Sprintf(format, a...) }
	switch shape {
	case "send":
		r, ok := res.(fclient.RespSend)
		if !ok || len(r.PDUs) != 2 || r.PDUs["$ev2:x"].Error != "bad" {
			return bad("RespSend %+v", res)
		}
	case "txn":
		r, ok := res.(gmsl.Transaction)
		if !ok || r.Origin != "remote.example" || r.OriginServerTS != 1234567 || len(r.PDUs) != 1 {
			return bad("Transaction %+v", res)
		}
	case "eventauth":
		r, ok := res.(fclient.RespEventAuth)
		if !ok || len(r.AuthEvents) != 2 {
			return bad("RespEventAuth %+v", res)
		}
	case "state":
		r, ok := res.(fclient.RespState)
		if !ok || len(r.StateEvents) != 1 || len(r.AuthEvents) != 2 {
			return bad("RespState %+v", res)
		}
	case "stateids":
		r, ok := res.(fclient.RespStateIDs)
		if !ok || !reflect.DeepEqual(r.StateEventIDs, []string{"$a", "$b"}) || !reflect.DeepEqual(r.AuthEventIDs, []string{"$c"}) {
			return bad("RespStateIDs %+v", res)
		}
	case "missing":
		r, ok := res.(fclient.RespMissingEvents)
		if !ok || len(r.Events) != 1 {
			return bad("RespMissingEvents %+v", res)
		}
	case "makejoin":
		r, ok := res.(fclient.RespMakeJoin)
		if !ok || r.RoomVersion != "10" || r.JoinEvent.RoomID != "!r:remote.example" || r.JoinEvent.Depth != 5 {
			return bad("RespMakeJoin %+v", res)
		}
	case "makeleave":
		r, ok := res.(fclient.RespMakeLeave)
		if !ok || r.RoomVersion != "10" || r.LeaveEvent.RoomID != "!r:remote.example" || r.LeaveEvent.Depth != 5 {
			return bad("RespMakeLeave %+v", res)
		}
	case "makeknock":
		r, ok := res.(fclient.RespMakeKnock)
		if !ok || r.RoomVersion != "10" || r.KnockEvent.RoomID != "!r:remote.example" || r.KnockEvent.Depth != 5 {
			return bad("RespMakeKnock %+v", res)
		}
	case "sendjoin", "sendjoinv1":
		r, ok := res.(fclient.RespSendJoin)
		if !ok || len(r.StateEvents) != 1 || len(r.AuthEvents) != 2 || r.Origin != "remote.example" || string(r.Event) != `{"a":1}` ||
			!r.MembersOmitted || !reflect.DeepEqual(r.ServersInRoom, []string{"s1.example"}) {
			return bad("RespSendJoin %+v", res)
		}
	case "empty", "emptyv1":
		// no result besides the absent error
	case "invitev1":
		switch r := res.(type) {
		case fclient.RespInvite:
			if string(r.Event) != `{"x":1}` {
				return bad("RespInvite %+v", res)
			}
		case fclient.RespInviteV2: // through SendInviteV2's older variant
			if string(r.Event) != `{"x":1}` {
				return bad("RespInviteV2 %+v", res)
			}
		default:
			return bad("%T", res)
		}
	case "invitev2":
		r, ok := res.(fclient.RespInviteV2)
		if !ok || string(r.Event) != `{"x":1}` {
			return bad("RespInviteV2 %+v", res)
		}
	case "sendknock":
		r, ok := res.(fclient.RespSendKnock)
		if !ok || len(r.KnockRoomState) != 1 {
			return bad("RespSendKnock %+v", res)
		}
	case "peek":
		r, ok := res.(fclient.RespPeek)
		if !ok || r.RenewalInterval != 3600000 || len(r.StateEvents) != 1 || len(r.AuthEvents) != 1 || r.RoomVersion != "10" ||
			r.LatestEvent == nil || r.LatestEvent.Type() != "m.room.member" || r.LatestEvent.RoomID().String() != "!r:remote.example" {
			return bad("RespPeek %+v", res)
		}
	case "devices":
		r, ok := res.(fclient.RespUserDevices)
		if !ok || r.UserID != "@u:remote.example" || r.StreamID != 5 || len(r.Devices) != 1 || r.Devices[0].DeviceID != "D1" {
			return bad("RespUserDevices %+v", res)
		}
	case "claim":
		r, ok := res.(fclient.RespClaimKeys)
		if !ok || len(r.OneTimeKeys["@u:remote.example"]["D1"]) != 1 {
			return bad("RespClaimKeys %+v", res)
		}
	case "querykeys":
		r, ok := res.(fclient.RespQueryKeys)
		if !ok || r.DeviceKeys["@u:remote.example"]["D1"].DeviceID != "D1" {
			return bad("RespQueryKeys %+v", res)
		}
	case "profile":
		r, ok := res.(fclient.RespProfile)
		if !ok || r.DisplayName != "Al" || r.AvatarURL != "mxc://x/y" {
			return bad("RespProfile %+v", res)
		}
	case "directory":
		r, ok := res.(fclient.RespDirectory)
		if !ok || r.RoomID != "!r:remote.example" || len(r.Servers) != 2 {
			return bad("RespDirectory %+v", res)
		}
	case "publicrooms":
		r, ok := res.(fclient.RespPublicRooms)
		if !ok || len(r.Chunk) != 1 || r.Chunk[0].RoomID != "!r:remote.example" || r.NextBatch != "nb" || r.TotalRoomCountEstimate != 9 {
			return bad("RespPublicRooms %+v", res)
		}
	case "msc2836":
		r, ok := res.(fclient.MSC2836EventRelationshipsResponse)
		if !ok || len(r.Events) != 1 || r.NextBatch != "nb" || !r.Limited || len(r.AuthChain) != 1 {
			return bad("MSC2836EventRelationshipsResponse %+v", res)
		}
	case "hierarchy":
		r, ok := res.(fclient.RoomHierarchyResponse)
		if !ok || r.Room.RoomID != "!r:remote.example" || r.Room.RoomType != "m.space" || len(r.InaccessibleChildren) != 1 {
			return bad("RoomHierarchyResponse %+v", res)
		}
	case "serverkeys":
		r, ok := res.(gmsl.ServerKeys)
		if !ok || r.ServerName != "remote.example" || len(r.VerifyKeys) != 1 {
			return bad("ServerKeys %+v", res)
		}
	case "keyquery":
		r, ok := res.([]gmsl.ServerKeys)
		if !ok || len(r) != 1 || r[0].ServerName != "remote.example" {
			return bad("[]ServerKeys %+v", res)
		}
	case "version":
		r, ok := res.(fclient.Version)
		if !ok || r.Server.Name != "N" || r.Server.Version != "V" {
			return bad("Version %+v", res)
		}
	case "relaytxn":
		r, ok := res.(fclient.RespGetRelayTransaction)
		if !ok || r.EntryID != 7 || !r.EntriesQueued || r.Transaction.Origin != "remote.example" || len(r.Transaction.PDUs) != 1 {
			return bad("RespGetRelayTransaction %+v", res)
		}
	case "userinfo":
		r, ok := res.(fclient.UserInfo)
		if !ok || r.Sub != "@user:"+e.dest {
			return bad("UserInfo %+v", res)
		}
	default:
		machinery("no result check for response shape " + shape)
	}
	return ""
}

// isZero: the result carries nothing (the zero value of its type, or no result at all).
func isZero(res interface{}) bool {
	if res == nil {
		return true
	}
	v := reflect.ValueOf(res)
	if v.Kind() == reflect.Ptr && v.IsNil() {
		return true
	}
	return v.IsZero()
}

// ------------------------------------------------------------------ body comparison

func jsonEqual(a, b interface{}) bool { return reflect.DeepEqual(a, b) }

func zeroJSON(v interface{}) bool {
	switch x := v.(type) {
	case nil:
		return true
	case string:
		return x == ""
	case bool:
		return !x
	case json.Number:
		return x.String() == "0"
	case map[string]interface{}:
		for _, m := range x {
			if !zeroJSON(m) {
				return false
			}
		}
		return true
	case []interface{}:
		return len(x) == 0
	}
	return false
}

// bodyMismatch compares the body that arrived with the body the API prescribes; "" = they agree.
func bodyMismatch(want interface{}, extra []string, got []byte) string {
	var g interface{}
	dec := json.NewDecoder(bytes.NewReader(got))
	dec.UseNumber()
	if err := dec.Decode(&g); err != nil {
		return fmt.Sprintf("the body is not JSON (%v): %.200q", err, got)
	}
	if ob, ok := want.(*optionalBody); ok {
		gm, ok := g.(map[string]interface{})
		if !ok {
			return fmt.Sprintf("the body is not an object: %.200s", got)
		}
		for k, wv := range ob.want {
			gv, present := gm[k]
			if !present {
				if !zeroJSON(wv) {
					return fmt.Sprintf("member %q is missing (want %s)", k, mustJSON(wv))
				}
				continue
			}
			if wm, isObj := wv.(obj); isObj { // one level of optional members (filter)
				if m := bodyMismatch(&optionalBody{want: wm}, nil, mustJSON(gv)); m != "" {
					return k + ": " + m
				}
				continue
			}
			if !jsonEqual(parseJSON(mustJSON(wv)), gv) {
				return fmt.Sprintf("member %q is %s, the caller passed %s", k, mustJSON(gv), mustJSON(wv))
			}
		}
		for k := range gm {
			if _, ok := ob.want[k]; !ok {
				return fmt.Sprintf("unexpected member %q", k)
			}
		}
		return ""
	}
	w := parseJSON(mustJSON(want))
	wm, wok := w.(map[string]interface{})
	gm, gok := g.(map[string]interface{})
	if !wok || !gok {
		if !jsonEqual(w, g) {
			return fmt.Sprintf("the body is %.300s, the API prescribes %.300s", got, mustJSON(want))
		}
		return ""
	}
	for k, wv := range wm {
		gv, present := gm[k]
		if !present {
			return fmt.Sprintf("member %q is missing (want %.200s)", k, mustJSON(wv))
		}
		if !jsonEqual(wv, gv) {
			return fmt.Sprintf("member %q is %.300s, the API prescribes %.300s", k, mustJSON(gv), mustJSON(wv))
		}
	}
	for k := range gm {
		if _, ok := wm[k]; ok {
			continue
		}
		allowed := false
		for _, x := range extra {
			allowed = allowed || x == k
		}
		if !allowed {
			return fmt.Sprintf("unexpected member %q: %.200s", k, mustJSON(gm[k]))
		}
	}
	return ""
}

var _ = strings.TrimSpace
