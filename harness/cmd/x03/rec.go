package main

// One FedAPI_gen.tla record and its concretisation: the abstract identifier classes of FedAPI.tla become real
// strings (seeded), the abstract server names real names owned by the record.

import (
	"crypto/sha256"
	"encoding/binary"
	"encoding/json"
	"fmt"
	"math/rand"
	"sort"
	"strings"
)

type slotT struct {
	N    string `json:"n"`
	T    string `json:"t"`
	Car  string `json:"car"`
	List bool   `json:"list"`
	Opt  bool   `json:"opt"`
}

type pathEl struct {
	K string `json:"k"`
	V string `json:"v"`
}

type qEl struct {
	N    string `json:"n"`
	K    string `json:"k"`
	V    string `json:"v"`
	Dflt string `json:"dflt"`
}

type reqT struct {
	Route  string   `json:"route"`
	M      string   `json:"m"`
	Path   []pathEl `json:"path"`
	Q      []qEl    `json:"q"`
	Body   string   `json:"body"`
	Signed bool     `json:"signed"`
	Resp   string   `json:"resp"`   // the shape of a well-formed answer
	Answer string   `json:"answer"` // what the receiving server answers
}

type clsMap map[string]string

// TLC prints a function with an empty domain as an empty sequence.
func (c *clsMap) UnmarshalJSON(b []byte) error {
	if strings.TrimSpace(string(b)) == "[]" {
		*c = clsMap{}
		return nil
	}
	m := map[string]string{}
	if err := json.Unmarshal(b, &m); err != nil {
		return err
	}
	*c = m
	return nil
}

type recT struct {
	Call  string  `json:"call"`
	Cls   clsMap  `json:"cls"`
	Flag  bool    `json:"flag"`
	Orig  string  `json:"orig"`
	Res   string  `json:"res"`
	Resp  string  `json:"resp"`
	Resp2 string  `json:"resp2"`
	Slots []slotT `json:"slots"`
	Reqs  []reqT  `json:"reqs"`
	To    struct {
		Listener string `json:"listener"`
		Host     string `json:"host"`
		SNI      string `json:"sni"`
	} `json:"to"`
	Out struct {
		Err    string `json:"err"`
		Code   int    `json:"code"`
		MX     bool   `json:"mx"`
		Result string `json:"result"`
	} `json:"out"`
}

// classKey is the canonical description of the slots that are not plain: "roomId=slash,eventId=qmark" or "plain".
func (r *recT) classKey() string {
	var parts []string
	for _, s := range r.Slots {
		if c := r.Cls[s.N]; c != "plain" {
			parts = append(parts, s.N+"="+c)
		}
	}
	if len(parts) == 0 {
		return "plain"
	}
	sort.Strings(parts)
	return strings.Join(parts, ",")
}

func (r *recT) slot(name string) *slotT {
	for i := range r.Slots {
		if r.Slots[i].N == name {
			return &r.Slots[i]
		}
	}
	return nil
}

// recordRand derives the record's random source from its content and the seed (not from its position in the
// input, so that a record re-executed alone is concretised the same way).
func recordRand(raw []byte, seed int64) (*rand.Rand, uint32) {
	h := sha256.New()
	h.Write(raw)
	var b [8]byte
	binary.BigEndian.PutUint64(b[:], uint64(seed))
	h.Write(b[:])
	sum := h.Sum(nil)
	return rand.New(rand.NewSource(int64(binary.BigEndian.Uint64(sum[:8])))), binary.BigEndian.Uint32(sum[8:12])
}

const plainChars = "abcdefghijklmnopqrstuvwxyz0123456789"
const plainWide = "abcdefghijklmnopqrstuvwxyzABCDEFGHIJKLMNOPQRSTUVWXYZ0123456789-._~"

func run(rnd *rand.Rand, alphabet string, lo, hi int) string {
	n := lo + rnd.Intn(hi-lo+1)
	b := make([]byte, n)
	for i := range b {
		b[i] = alphabet[rnd.Intn(len(alphabet))]
	}
	return string(b)
}

func pick(rnd *rand.Rand, xs ...string) string { return xs[rnd.Intn(len(xs))] }

// classBody realises ClassBody(c) of FedAPI.tla: "a" "b" "c" are runs of unreserved characters.
func classBody(rnd *rand.Rand, class string, longLen int) string {
	a, b, c := run(rnd, plainChars, 1, 6), run(rnd, plainWide, 1, 6), run(rnd, plainChars, 1, 4)
	switch class {
	case "plain":
		return a + b
	case "slash":
		return a + "/" + b
	case "qmark":
		return a + "?" + b
	case "hash":
		return a + "#" + b
	case "pct":
		// the text of an escape, an escape of a reserved character, something that is no escape at all
		return a + pick(rnd, "%41", "%2F", "%3f", "%25", "%2f"+b, "%zz", "%", "%4")
	case "amp":
		return a + "&" + b + "=" + c
	case "plus":
		return a + "+" + b
	case "space":
		return a + " " + b
	case "nonascii":
		return a + pick(rnd, "é", "üß", "日本", "\U0001F600") + b
	case "b64":
		// what an event ID of room version 3 looks like: unpadded standard base64 of a SHA-256
		const std = "ABCDEFGHIJKLMNOPQRSTUVWXYZabcdefghijklmnopqrstuvwxyz0123456789+/"
		x := []byte(run(rnd, std, 43, 43))
		p := rnd.Perm(43)
		x[p[0]], x[p[1]] = '/', '+'
		return string(x)
	case "long":
		return a + run(rnd, plainWide, longLen, longLen) + b
	case "empty":
		return ""
	}
	machinery("unknown identifier class " + class)
	return ""
}

// ident realises Ident(t, body).
func ident(t, body, dom string) string {
	switch t {
	case "room":
		return "!" + body + ":" + dom
	case "user":
		return "@" + body + ":" + dom
	case "alias":
		return "#" + body + ":" + dom
	case "event":
		return "$" + body
	}
	return body
}

// slotValue realises Val(s, c): a list of identifiers (one element for a scalar).
func slotValue(rnd *rand.Rand, s slotT, class, dom string) []string {
	if s.T == "ver" {
		if class == "empty" {
			return nil
		}
		all := []string{"1", "2", "3", "4", "5", "6", "7", "8", "9", "10", "11", "12", "org.matrix.msc3787", "org.matrix.msc3667"}
		p := rnd.Perm(len(all))
		return []string{all[p[0]], all[p[1]]}
	}
	longLen := 190 // identifiers with a sigil are limited to 255 bytes
	if s.T == "opaque" || s.T == "txn" {
		longLen = 1500 + rnd.Intn(2500)
	}
	if s.List {
		if class == "empty" {
			return nil
		}
		return []string{ident(s.T, classBody(rnd, class, longLen), dom), ident(s.T, classBody(rnd, "plain", 0), dom)}
	}
	if class == "empty" {
		return []string{""}
	}
	return []string{ident(s.T, classBody(rnd, class, longLen), dom)}
}

func q(s string) string { return fmt.Sprintf("%q", s) }
