package main

// spec -> code.  One FedAPI_gen.tla record = one call of the real federation client against a receiving server
// of the record's own: a TLS httptest server on 127.0.0.1 reached through the resolver / well-known seams
// (seam.go).  The server plays the receiver of FedAPI.tla: it keeps the raw request target, splits and
// percent-decodes it, runs the real fclient.VerifyHTTPRequest with a key ring that knows the keys of the client's
// identities, and answers what the record says.  Everything observed is compared with the record.

import (
	"bytes"
	"context"
	"crypto/ed25519"
	"crypto/sha256"
	"crypto/tls"
	"encoding/json"
	"fmt"
	"io"
	"mime"
	"net/http"
	"net/http/httptest"
	"net/url"
	"sort"
	"strconv"
	"strings"
	"sync"
	"time"

	"github.com/matrix-org/gomatrix"
	gmsl "github.com/matrix-org/gomatrixserverlib"
	"github.com/matrix-org/gomatrixserverlib/fclient"
	"github.com/matrix-org/gomatrixserverlib/spec"

	"verifharness/hx"
)

const callTimeout = 20 * time.Second

type memDB struct {
	m map[gmsl.PublicKeyLookupRequest]gmsl.PublicKeyLookupResult
}

func (d *memDB) FetcherName() string { return "memDB" }
func (d *memDB) FetchKeys(_ context.Context, reqs map[gmsl.PublicKeyLookupRequest]spec.Timestamp) (map[gmsl.PublicKeyLookupRequest]gmsl.PublicKeyLookupResult, error) {
	out := map[gmsl.PublicKeyLookupRequest]gmsl.PublicKeyLookupResult{}
	for r := range reqs {
		if v, ok := d.m[r]; ok {
			out[r] = v
		}
	}
	return out, nil
}
func (d *memDB) StoreKeys(_ context.Context, _ map[gmsl.PublicKeyLookupRequest]gmsl.PublicKeyLookupResult) error {
	return nil
}

// seen is what the receiving server made of one request.
type seen struct {
	method, uri, host, sni, proto string
	auth                          []string
	ctype                         string
	body                          []byte
	vcode                         int
	vorigin, vdest, vuri          string
	vcontent                      []byte
}

type receiver struct {
	e       *env
	ring    gmsl.JSONVerifier
	answers []answer
	mu      sync.Mutex
	seen    []seen
}

type answer struct {
	status int
	ctype  string
	body   []byte
}

func (rc *receiver) ServeHTTP(w http.ResponseWriter, r *http.Request) {
	body, _ := io.ReadAll(r.Body)
	s := seen{method: r.Method, uri: r.RequestURI, host: r.Host, proto: r.Proto, auth: r.Header["Authorization"],
		ctype: r.Header.Get("Content-Type"), body: body}
	if r.TLS != nil {
		s.sni = r.TLS.ServerName
	}
	// (b) the receiver rebuilds the signed object from what arrived and verifies it - with the library's own verifier
	r.Body = io.NopCloser(bytes.NewReader(body))
	fr, resp := fclient.VerifyHTTPRequest(r, time.Now(), spec.ServerName(rc.e.dest), nil, rc.ring)
	s.vcode = resp.Code
	if fr != nil {
		s.vorigin, s.vdest, s.vuri, s.vcontent = string(fr.Origin()), string(fr.Destination()), fr.RequestURI(), fr.Content()
	}
	rc.mu.Lock()
	n := len(rc.seen)
	rc.seen = append(rc.seen, s)
	rc.mu.Unlock()
	a := answer{status: 500, ctype: "text/plain", body: []byte("x03: more requests than the scenario has answers")}
	if n < len(rc.answers) {
		a = rc.answers[n]
	}
	if a.ctype != "" {
		w.Header().Set("Content-Type", a.ctype)
	}
	w.Header().Set("Content-Length", strconv.Itoa(len(a.body)))
	w.WriteHeader(a.status)
	_, _ = w.Write(a.body)
}

func mkAnswer(kind, shape string, e *env) answer {
	ok := okBody(shape, e)
	js := "application/json"
	switch kind {
	case "ok":
		if shape == "raw" {
			return answer{200, "application/octet-stream", []byte(ok)}
		}
		return answer{200, js, []byte(ok)}
	case "trunc":
		return answer{200, js, []byte(ok[:(len(ok)+1)/2])}
	case "notjson":
		return answer{200, "text/html", []byte("<html><body>It works!</body></html>")}
	case "wrongtop":
		return answer{200, js, []byte(wrongTop(shape))}
	case "emptybody":
		return answer{200, js, nil}
	case "e403":
		return answer{403, js, []byte(`{"errcode":"M_FORBIDDEN","error":"You are not allowed"}`)}
	case "e404":
		return answer{404, js, []byte(`{"errcode":"M_UNRECOGNIZED","error":"Unrecognized request"}`)}
	case "e500":
		return answer{500, "text/html", []byte("<html><body>Internal Server Error</body></html>")}
	}
	machinery("unknown answer kind " + kind)
	return answer{}
}

func keyFor(label, who string) (ed25519.PublicKey, ed25519.PrivateKey) {
	sum := sha256.Sum256([]byte("x03 key " + label + " " + who))
	priv := ed25519.NewKeyFromSeed(sum[:])
	return priv.Public().(ed25519.PublicKey), priv
}

func replay(i int, seed int64, raw json.RawMessage) hx.Result {
	var rec recT
	if err := json.Unmarshal(raw, &rec); err != nil {
		machinery("record does not parse: " + err.Error())
	}
	def, known := calls[rec.Call]
	if !known {
		machinery("no Go binding for call " + rec.Call)
	}
	installStubs()
	rnd, h32 := recordRand(raw, seed)
	label := fmt.Sprintf("r%dx%08x", i, h32)
	e := &env{rec: &rec, rnd: rnd, label: label, vals: map[string][]string{}}
	e.limit, e.depth, e.ts, e.entry = 1+rnd.Intn(200), rnd.Intn(50), 1700000000000+int64(rnd.Intn(1000000)), int64(1+rnd.Intn(1000))
	e.dom = pick(rnd, "id.example", "id.example:8448", "ids.example.org", "1.2.3.4")
	base := "X03/" + rec.Call
	ck := rec.classKey()
	fail := func(aspect, what string, want, got interface{}) hx.Result {
		return hx.Result{OK: false, Key: base + "/" + aspect, What: what, Want: want, Got: got}
	}

	// ---- the receiving server (or a port that refuses connections)
	refused := rec.Resp == "refused"
	idA, idB, idU := "oa."+label+".x03.test", "ob."+label+".x03.test", "ou."+label+".x03.test"
	pubA, privA := keyFor(label, "A")
	pubB, privB := keyFor(label, "B")
	db := &memDB{m: map[gmsl.PublicKeyLookupRequest]gmsl.PublicKeyLookupResult{}}
	until := spec.AsTimestamp(time.Now().Add(2 * time.Hour))
	db.m[gmsl.PublicKeyLookupRequest{ServerName: spec.ServerName(idA), KeyID: "ed25519:a1"}] = gmsl.PublicKeyLookupResult{VerifyKey: gmsl.VerifyKey{Key: spec.Base64Bytes(pubA)}, ValidUntilTS: until}
	db.m[gmsl.PublicKeyLookupRequest{ServerName: spec.ServerName(idB), KeyID: "ed25519:b2"}] = gmsl.PublicKeyLookupResult{VerifyKey: gmsl.VerifyKey{Key: spec.Base64Bytes(pubB)}, ValidUntilTS: until}
	rc := &receiver{e: e, ring: &gmsl.KeyRing{KeyDatabase: db}}
	var port int
	if refused {
		p, release, err := reservedPort()
		if err != nil {
			machinery("cannot reserve a loopback port: " + err.Error())
		}
		defer release()
		port = p
	} else {
		srv := httptest.NewUnstartedServer(rc)
		srv.EnableHTTP2 = rnd.Intn(2) == 0
		srv.TLS = &tls.Config{}
		srv.Config.ErrorLog = nil
		srv.StartTLS()
		defer srv.Close()
		u, _ := url.Parse(srv.URL)
		port, _ = strconv.Atoi(u.Port())
	}
	z := &zone{mode: rec.Res, port: port, label: label}
	zones.Store(label, z)
	defer zones.Delete(label)

	// ---- names: the destination as the caller names it; where the request must arrive
	var wantHost, wantSNI string
	dHost, wHost := "d."+label+".x03.test", "w."+label+".x03.test"
	ps := strconv.Itoa(port)
	switch rec.Res {
	case "port":
		e.dest, wantHost, wantSNI = dHost+":"+ps, dHost+":"+ps, dHost
	case "ip":
		e.dest, wantHost, wantSNI = "127.0.0.1:"+ps, "127.0.0.1:"+ps, "" // no SNI for an IP literal (RFC 6066)
	case "wk":
		e.dest, wantHost, wantSNI = dHost, wHost+":"+ps, wHost
	case "srv":
		e.dest, wantHost, wantSNI = dHost, dHost, dHost
	default:
		machinery("unknown resolution mode " + rec.Res)
	}
	if tok := map[string]string{"port": "D", "ip": "I", "wk": "W", "srv": "T"}[rec.Res]; tok != rec.To.Listener {
		machinery("the record's listener " + rec.To.Listener + " is not the one the harness sets up for " + rec.Res)
	}
	switch rec.Orig {
	case "A", "na":
		e.origin = idA
	case "B":
		e.origin = idB
	case "U":
		e.origin = idU
	default:
		machinery("unknown origin " + rec.Orig)
	}

	// ---- identifiers
	for _, s := range rec.Slots {
		dom := e.dom
		if rec.Call == "P2PGetTransactionFromRelay" && s.N == "userId" {
			dom = e.origin // the relay is asked in the name of the user's own server
		}
		e.vals[s.N] = slotValue(rnd, s, rec.Cls[s.N], dom)
	}
	for _, rq := range rec.Reqs {
		if rq.Answer != "refused" {
			rc.answers = append(rc.answers, mkAnswer(rq.Answer, rq.Resp, e))
		}
	}
	if def.prep != nil {
		if why := def.prep(e); why != "" {
			// the identifier class is admitted by the Matrix grammar but the library's typed constructors refuse it:
			// nothing to call (identifier validation is C17's subject)
			return hx.Result{OK: true, NT: "unconstructible|" + rec.Call + "|" + ck, Extra: why}
		}
	}

	// ---- the call
	ids := []*fclient.SigningIdentity{
		{ServerName: spec.ServerName(idA), KeyID: "ed25519:a1", PrivateKey: privA},
		{ServerName: spec.ServerName(idB), KeyID: "ed25519:b2", PrivateKey: privB},
	}
	e.fc = fclient.NewFederationClient(ids, fclient.WithSkipVerify(true), fclient.WithTimeout(callTimeout), fclient.WithKeepAlives(rnd.Intn(2) == 0))
	ctx, cancel := context.WithTimeout(context.Background(), callTimeout+5*time.Second)
	defer cancel()
	e.ctx = ctx
	res, err := def.do(e)
	rc.mu.Lock()
	got := append([]seen(nil), rc.seen...)
	rc.mu.Unlock()

	describe := fmt.Sprintf("%s(%s; origin %s; destination by %s; answer %s", rec.Call, e.describeArgs(), rec.Orig, rec.Res, rec.Resp)
	if rec.Resp2 != "na" {
		describe += " then " + rec.Resp2
	}
	describe += ")"

	// ---- what the receiver saw
	nWant := 0
	for _, rq := range rec.Reqs {
		if rq.Answer != "refused" {
			nWant++
		}
	}
	if len(got) != nWant {
		aspect := "requests/" + ck
		if ck == "plain" {
			aspect = "requests/orig=" + rec.Orig + "/resp=" + rec.Resp
		}
		var uris []string
		for _, s := range got {
			uris = append(uris, s.method+" "+s.uri)
		}
		return fail(aspect, fmt.Sprintf("%s: the receiving server saw %d request(s) %q, the specification prescribes %d; the call returned err=%v", describe, len(got), uris, nWant, err), nWant, len(got))
	}
	for k, s := range got {
		rq := rec.Reqs[k]
		which := ""
		if k > 0 {
			which = " (request " + strconv.Itoa(k+1) + ", the older endpoint variant)"
		}
		// -- P4 destination
		if s.host != wantHost || s.sni != wantSNI {
			return fail("destination/res="+rec.Res, fmt.Sprintf("%s%s: arrived with Host %q and TLS server name %q; resolution of %q prescribes Host %q, server name %q",
				describe, which, s.host, s.sni, e.dest, wantHost, wantSNI), []string{wantHost, wantSNI}, []string{s.host, s.sni})
		}
		// -- P1 fidelity: (a) split the raw target, percent-decode
		if m, culprit := e.fidelity(rq, s); m != "" {
			if culprit == "" {
				culprit = ck
			}
			return fail("fidelity/"+culprit, fmt.Sprintf("%s%s: the receiver got %s %s: %s", describe, which, s.method, s.uri, m), rq.Route, s.uri)
		}
		// -- body
		if rq.Body == "none" || (rq.M == "GET|POST" && s.method == "GET") {
			if len(s.body) != 0 {
				return fail("body/"+ck, fmt.Sprintf("%s%s: the API has no request body here, the receiver got %.200q", describe, which, s.body), "", string(s.body))
			}
		} else {
			if def.body == nil {
				machinery("no body expectation for " + rec.Call)
			}
			wantBody, extra := def.body(e)
			if rec.Call == "SendInviteV2" && k > 0 {
				wantBody, extra = evBody(e)
			}
			if mt, _, perr := mime.ParseMediaType(s.ctype); perr != nil || mt != "application/json" {
				return fail("body/"+ck, fmt.Sprintf("%s%s: a JSON body with Content-Type %q", describe, which, s.ctype), "application/json", s.ctype)
			}
			if m := bodyMismatch(wantBody, extra, s.body); m != "" {
				return fail("body/"+ck, fmt.Sprintf("%s%s: request body: %s", describe, which, m), nil, string(s.body))
			}
		}
		// -- P2 authenticity
		var xm []string
		for _, a := range s.auth {
			if strings.HasPrefix(a, "X-Matrix") {
				xm = append(xm, a)
			}
		}
		if rq.Signed {
			switch {
			case len(xm) == 0:
				return fail("auth/orig="+rec.Orig, fmt.Sprintf("%s%s: no X-Matrix Authorization header on a call the API requires to be signed", describe, which), "signed", s.auth)
			case s.vcode != 200:
				return fail("auth/orig="+rec.Orig+"/"+ck, fmt.Sprintf("%s%s: VerifyHTTPRequest at the destination answers %d for %s %s with %q", describe, which, s.vcode, s.method, s.uri, xm), 200, s.vcode)
			case s.vorigin != e.origin || s.vdest != e.dest:
				return fail("auth/orig="+rec.Orig, fmt.Sprintf("%s%s: verified as origin %q for destination %q; the caller named origin %q and destination %q", describe, which, s.vorigin, s.vdest, e.origin, e.dest),
					[]string{e.origin, e.dest}, []string{s.vorigin, s.vdest})
			case !bytes.Equal(s.vcontent, s.body) || s.vuri != s.uri:
				return fail("auth/orig="+rec.Orig, fmt.Sprintf("%s%s: the verified object covers uri %q / %d body bytes, what arrived is %q / %d bytes", describe, which, s.vuri, len(s.vcontent), s.uri, len(s.body)), s.uri, s.vuri)
			}
		} else if len(s.auth) != 0 {
			return fail("auth/unsigned", fmt.Sprintf("%s%s: an unsigned call carries Authorization %q", describe, which, s.auth), "none", s.auth)
		}
	}

	// ---- P3 the caller's outcome
	ra := "response/" + rec.Resp
	if rec.Resp2 != "na" {
		ra += "+" + rec.Resp2
	}
	lastShape := ""
	var lastAnswer answer
	if n := len(rec.Reqs); n > 0 {
		lastShape = rec.Reqs[n-1].Resp
		if rec.Reqs[n-1].Answer != "refused" {
			lastAnswer = rc.answers[len(rc.answers)-1]
		}
	}
	herr, isHTTP := err.(gomatrix.HTTPError)
	switch rec.Out.Err {
	case "none":
		if err != nil {
			return fail(ra, fmt.Sprintf("%s: returned the error %v; the answer was %d %.300q", describe, err, lastAnswer.status, lastAnswer.body), "no error", err.Error())
		}
		if rec.Out.Result == "raw" {
			r, ok := res.(*rawResult)
			if !ok || r.Status != rec.Out.Code || !bytes.Equal(r.Body, lastAnswer.body) {
				return fail(ra, fmt.Sprintf("%s: the response handed to the caller is %+v; the server answered %d %q", describe, res, lastAnswer.status, lastAnswer.body), rec.Out.Code, fmt.Sprintf("%+v", res))
			}
		} else if m := populated(lastShape, e, res); m != "" {
			return fail(ra, fmt.Sprintf("%s: the well-formed answer %.300s did not arrive in the result: %.400s", describe, lastAnswer.body, m), string(lastAnswer.body), m)
		}
	case "http":
		switch {
		case err == nil:
			return fail(ra, fmt.Sprintf("%s: no error for the answer %d", describe, rec.Out.Code), "gomatrix.HTTPError", nil)
		case !isHTTP:
			return fail(ra, fmt.Sprintf("%s: the error for the answer %d is %T (%v), not a gomatrix.HTTPError", describe, rec.Out.Code, err, err), "gomatrix.HTTPError", fmt.Sprintf("%T", err))
		case herr.Code != rec.Out.Code:
			return fail(ra, fmt.Sprintf("%s: HTTPError.Code = %d for the answer %d", describe, herr.Code, rec.Out.Code), rec.Out.Code, herr.Code)
		}
		mxe, isMX := herr.WrappedError.(gomatrix.RespError)
		if rec.Out.MX && (!isMX || !strings.HasPrefix(string(lastAnswer.body), `{"errcode":"`+mxe.ErrCode+`"`)) {
			return fail(ra, fmt.Sprintf("%s: the Matrix error body %s is not carried by the HTTPError (wrapped: %v)", describe, lastAnswer.body, herr.WrappedError), string(lastAnswer.body), fmt.Sprint(herr.WrappedError))
		}
		if !rec.Out.MX && (herr.WrappedError != nil || !bytes.Equal(herr.Contents, lastAnswer.body)) {
			return fail(ra, fmt.Sprintf("%s: a body that is no Matrix error (%q) came back as wrapped=%v contents=%q", describe, lastAnswer.body, herr.WrappedError, herr.Contents), string(lastAnswer.body), string(herr.Contents))
		}
	case "plain", "conn", "noident":
		if err == nil {
			return fail(ra, fmt.Sprintf("%s: no error (%s expected)", describe, rec.Out.Err), rec.Out.Err, nil)
		}
		if rec.Out.Err != "plain" && isHTTP {
			return fail(ra, fmt.Sprintf("%s: an HTTPError (%v) although no answer was received", describe, err), rec.Out.Err, err.Error())
		}
	case "decode":
		if err == nil {
			return fail(ra, fmt.Sprintf("%s: no error for the malformed 200 answer %.200q; result %+v", describe, lastAnswer.body, res), "an error", nil)
		}
	default:
		machinery("unknown outcome " + rec.Out.Err)
	}
	if rec.Out.Result == "zero" && !isZero(res) {
		return fail(ra, fmt.Sprintf("%s: error %v, yet the result is populated: %+v", describe, err, res), "zero result", fmt.Sprintf("%+v", res))
	}
	return hx.Result{OK: true, NT: fmt.Sprintf("%s|%s|o=%s|r=%s|a=%s+%s", rec.Call, ck, rec.Orig, rec.Res, rec.Resp, rec.Resp2)}
}

func (e *env) describeArgs() string {
	var parts []string
	for _, s := range e.rec.Slots {
		v := e.vals[s.N]
		txt := fmt.Sprintf("%q", v)
		if len(txt) > 120 {
			txt = txt[:100] + fmt.Sprintf("...(%d bytes)", len(txt))
		}
		parts = append(parts, s.N+"="+txt)
	}
	if e.rec.Flag {
		parts = append(parts, "flag=true")
	}
	return strings.Join(parts, ", ")
}

func methodsOf(m string) []string { return strings.Split(m, "|") }

// fidelity is the receiver's action (a) and property P1: cut the raw target at "?", split the path at "/",
// percent-decode every segment, parse the query - and find the route's literals, the caller's identifiers in
// their slots and nothing else.  "" = all recovered.
func (e *env) fidelity(rq reqT, s seen) (what, culprit string) {
	slotClass := func(slot string) string { return slot + "=" + e.rec.Cls[slot] }
	okMethod := false
	for _, m := range methodsOf(rq.M) {
		okMethod = okMethod || m == s.method
	}
	if !okMethod {
		return fmt.Sprintf("method %s, the API has %s", s.method, rq.M), "method"
	}
	rawPath, rawQuery := s.uri, ""
	if i := strings.IndexByte(s.uri, '?'); i >= 0 {
		rawPath, rawQuery = s.uri[:i], s.uri[i+1:]
	}
	if !strings.HasPrefix(rawPath, "/") {
		return "the path does not start with /", ""
	}
	segs := strings.Split(rawPath[1:], "/")
	var tmpl []string
	for _, p := range rq.Path {
		switch p.K {
		case "lit":
			tmpl = append(tmpl, p.V)
		case "par":
			tmpl = append(tmpl, "{"+p.V+"}")
		case "dst":
			tmpl = append(tmpl, "{serverName}")
		}
	}
	route := rq.M + " /" + strings.Join(tmpl, "/")
	if len(segs) != len(rq.Path) {
		var who []string
		for _, p := range rq.Path {
			if p.K == "par" && e.rec.Cls[p.V] != "plain" {
				who = append(who, slotClass(p.V))
			}
		}
		return fmt.Sprintf("the path has %d segments, the route %s has %d: another route (or none) is addressed", len(segs), route, len(rq.Path)), strings.Join(who, ",")
	}
	for i, p := range rq.Path {
		dec, err := url.PathUnescape(segs[i])
		if err != nil {
			c := ""
			if p.K == "par" {
				c = slotClass(p.V)
			}
			return fmt.Sprintf("segment %d %q does not percent-decode: %v", i+1, segs[i], err), c
		}
		var want string
		switch p.K {
		case "lit":
			want = p.V
		case "par":
			want = e.v(p.V)
		case "dst":
			want = e.dest
		}
		if dec != want {
			if p.K == "lit" {
				return fmt.Sprintf("segment %d is %q, the route %s has %q", i+1, dec, route, want), "route"
			}
			return fmt.Sprintf("segment %d decodes to %q, the caller passed %s = %q", i+1, dec, p.V, want), slotClass(p.V)
		}
	}
	// query
	gotQ, err := url.ParseQuery(rawQuery)
	if err != nil {
		return fmt.Sprintf("the query %q does not parse: %v", rawQuery, err), ""
	}
	if rq.M == "GET|POST" && s.method == "GET" {
		return e.publicRoomsQuery(gotQ), "query"
	}
	names := map[string]bool{}
	for _, qr := range rq.Q {
		names[qr.N] = true
		var want []string
		optional := false // absent is as good as the (single) wanted value
		switch qr.K {
		case "par":
			want = append(want, e.vals[qr.V]...)
			if sl := e.rec.slot(qr.V); sl != nil && !sl.List && sl.Opt && len(want) == 1 && want[0] == "" {
				optional = true
			}
		case "const":
			want = []string{qr.V}
			optional = qr.V == qr.Dflt
		case "flag":
			want = []string{strconv.FormatBool(e.rec.Flag)}
			optional = want[0] == qr.Dflt
		case "vers":
			for v := range gmsl.RoomVersions() {
				want = append(want, string(v))
			}
		case "int":
			want = []string{strconv.Itoa(e.limit)}
		default:
			machinery("unknown query parameter kind " + qr.K)
		}
		g := append([]string(nil), gotQ[qr.N]...)
		if optional && len(g) == 0 {
			continue
		}
		sort.Strings(g)
		sort.Strings(want)
		if fmt.Sprintf("%q", g) != fmt.Sprintf("%q", want) {
			c := "query=" + qr.N
			if qr.K == "par" {
				c = slotClass(qr.V)
			}
			return fmt.Sprintf("query parameter %s arrives as %q, the caller passed %q", qr.N, g, want), c
		}
	}
	for n := range gotQ {
		if !names[n] {
			return fmt.Sprintf("the query carries a parameter %q (= %q) the route %s does not have", n, gotQ[n], route), ""
		}
	}
	return "", ""
}

// publicRoomsQuery: GET /publicRooms carries limit, since, include_all_networks, third_party_instance_id in the query
func (e *env) publicRoomsQuery(got url.Values) string {
	want := map[string]string{"limit": strconv.Itoa(e.limit), "since": e.v("since"), "third_party_instance_id": e.v("tpid")}
	if e.allNetworks() {
		want["include_all_networks"] = "true"
	}
	for n, w := range want {
		if g := got.Get(n); g != w && !(n == "include_all_networks" && g == "" && w == "false") {
			return fmt.Sprintf("query parameter %s arrives as %q, the caller passed %q", n, g, w)
		}
	}
	for n := range got {
		if _, ok := want[n]; !ok && n != "include_all_networks" {
			return fmt.Sprintf("the query carries a parameter %q the route does not have", n)
		}
	}
	return ""
}
