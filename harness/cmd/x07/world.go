package main

// The concrete world behind the vocabulary of spec/JoinFlow.tla: the joining server J and the resident server R with
// real ed25519 keys, the users, and the room as R has it - built from the scenario with real, signed events in the
// scenario's room version (pseudo-ID rooms: senders and state keys are per-room keys, joins carry a signed
// mxid_mapping).  Helper code adapted from harness/cmd/x05 (world.go) and harness/cmd/c15 (world.go, pseudo.go).

import (
	"context"
	"crypto/ed25519"
	"crypto/sha256"
	"encoding/base64"
	"encoding/json"
	"fmt"
	"strings"
	"sync"
	"time"

	gmsl "github.com/matrix-org/gomatrixserverlib"
	"github.com/matrix-org/gomatrixserverlib/spec"
)

// Sc is the scenario record of JoinFlow.tla.
type Sc struct {
	Ver      string `json:"ver"`
	Input    string `json:"input"`
	Content  string `json:"content"`
	Unsigned string `json:"unsigned"`
	JR       string `json:"jr"`
	Mem      string `json:"mem"`
	Tpl      string `json:"tpl"`
	Ans      string `json:"ans"`
	St       string `json:"st"`
	Env      string `json:"env"`
}

type server struct {
	name  spec.ServerName
	keyID gmsl.KeyID
	priv  ed25519.PrivateKey
	pub   ed25519.PublicKey
	wrong ed25519.PrivateKey // another key under the same key ID: signatures made with it do not verify
}

func mkServer(name, keyID string) *server {
	seed := sha256.Sum256([]byte("x07-key-" + name))
	priv := ed25519.NewKeyFromSeed(seed[:])
	wseed := sha256.Sum256([]byte("x07-wrong-key-" + name))
	return &server{name: spec.ServerName(name), keyID: gmsl.KeyID(keyID), priv: priv, pub: priv.Public().(ed25519.PublicKey),
		wrong: ed25519.NewKeyFromSeed(wseed[:])}
}

var (
	srvJ = mkServer("j.test", "ed25519:j1")
	srvR = mkServer("r.test", "ed25519:r1")
)

const (
	userC      = "@c:r.test" // creator, on the resident server
	userU      = "@u:j.test" // the joiner
	userW      = "@w:j.test" // another user of J
	userEvil   = "@evil:r.test"
	unknownVer = "x07.unknown"
	pseudoVer  = "org.matrix.msc4014"
)

// fixed instants for the room's history; PerformJoin stamps its event with time.Now(): the key database serves keys
// that are valid until two days from now, nothing else depends on the wall clock
var t0 = time.Unix(1700000000, 0)

func domainless(ver string) bool { return ver == "12" || ver == "org.matrix.hydra.11" }
func formatV1(ver string) bool   { return ver == "1" || ver == "2" }

func serverOfUser(user string) *server {
	if strings.HasSuffix(user, ":"+string(srvJ.name)) {
		return srvJ
	}
	return srvR
}

func mustUserID(s string) spec.UserID {
	u, err := spec.NewUserID(s, true)
	if err != nil {
		panic(err)
	}
	return *u
}

func mustRoomID(s string) spec.RoomID {
	r, err := spec.NewRoomID(s)
	if err != nil {
		panic(fmt.Sprintf("room id %q: %v", s, err))
	}
	return *r
}

func strp(s string) *string { return &s }

// ---------------------------------------------------------------------------------------------------
// room keys (pseudo-ID rooms): deterministic per user

var (
	roomKeyMu sync.Mutex
	roomKeys  = map[string]ed25519.PrivateKey{}
	sidToUser = map[string]string{}
)

func roomKey(user string) ed25519.PrivateKey {
	roomKeyMu.Lock()
	defer roomKeyMu.Unlock()
	k, ok := roomKeys[user]
	if !ok {
		seed := sha256.Sum256([]byte("x07-roomkey-" + user))
		k = ed25519.NewKeyFromSeed(seed[:])
		roomKeys[user] = k
		sidToUser[string(spec.SenderIDFromPseudoIDKey(k))] = user
	}
	return k
}

func pseudoSID(user string) string { return string(spec.SenderIDFromPseudoIDKey(roomKey(user))) }

func userOfSID(sid string) (string, bool) {
	roomKeyMu.Lock()
	defer roomKeyMu.Unlock()
	u, ok := sidToUser[sid]
	return u, ok
}

func pseudoSigner(user string) *server {
	k := roomKey(user)
	return &server{name: spec.ServerName(pseudoSID(user)), keyID: "ed25519:1", priv: k, pub: k.Public().(ed25519.PublicKey), wrong: k}
}

func mapping(user string) *gmsl.MXIDMapping {
	m := &gmsl.MXIDMapping{UserRoomKey: spec.SenderID(pseudoSID(user)), UserID: user}
	S := serverOfUser(user)
	if err := m.Sign(S.name, S.keyID, S.priv); err != nil {
		panic(err)
	}
	return m
}

// ---------------------------------------------------------------------------------------------------
// the room on R

type world struct {
	key    string
	ver    gmsl.RoomVersion
	impl   gmsl.IRoomVersion
	pseudo bool
	room   string
	other  string // another well-formed room ID
	create gmsl.PDU
	cjoin  gmsl.PDU // the creator's join
	pl0    gmsl.PDU // the first power-level event: superseded, only in the auth chain (the join rules cite it)
	pl     gmsl.PDU
	jr     gmsl.PDU
	uinv   gmsl.PDU // invite of the joiner (mem = invite, and the invite behind mem = join in an invite-only room); may be nil
	umem   gmsl.PDU // the joiner's current membership event (nil: none)
	depth  int64
	last   string
	all    []gmsl.PDU // every event of the room, in order
}

func (w *world) sid(user string) string {
	if w.pseudo && strings.HasPrefix(user, "@") {
		return pseudoSID(user)
	}
	return user
}

// signerOf: who signs an event sent by user (the user's server; in a pseudo-ID room the user's room key)
func (w *world) signerOf(user string) *server {
	if w.pseudo {
		return pseudoSigner(user)
	}
	return serverOfUser(user)
}

func (w *world) authIDs(evs ...gmsl.PDU) []string {
	out := []string{}
	for _, e := range evs {
		if e == nil {
			continue
		}
		if domainless(string(w.ver)) && e.Type() == spec.MRoomCreate {
			continue
		}
		out = append(out, e.EventID())
	}
	return out
}

// build makes a real, signed event.  sender / state key are user IDs; they are translated for pseudo-ID rooms.
func (w *world) build(room, typ string, skey *string, sender string, content map[string]interface{}, auth, prev []string,
	depth int64, at time.Time, signer *server, key ed25519.PrivateKey) gmsl.PDU {
	if w.pseudo {
		switch typ {
		case spec.MRoomCreate:
			content["creator"] = pseudoSID(userC)
		case spec.MRoomPowerLevels:
			if users, ok := content["users"].(map[string]int); ok {
				tr := map[string]int{}
				for u, l := range users {
					tr[pseudoSID(u)] = l
				}
				content["users"] = tr
			}
		case spec.MRoomMember:
			if content["membership"] == "join" && skey != nil && strings.HasPrefix(*skey, "@") {
				if _, has := content["mxid_mapping"]; !has {
					content["mxid_mapping"] = mapping(*skey)
				}
			}
		}
	}
	if skey != nil && strings.HasPrefix(*skey, "@") {
		skey = strp(w.sid(*skey))
	}
	cb, err := json.Marshal(content)
	if err != nil {
		panic(err)
	}
	proto := gmsl.ProtoEvent{SenderID: w.sid(sender), RoomID: room, Type: typ, StateKey: skey, PrevEvents: prev, AuthEvents: auth,
		Depth: depth, Content: cb}
	if signer == nil {
		signer = w.signerOf(sender)
		key = signer.priv
	}
	ev, err := w.impl.NewEventBuilderFromProtoEvent(&proto).Build(at, signer.name, signer.keyID, key)
	if err != nil {
		panic(fmt.Sprintf("x07: cannot build %s event (v%s): %v", typ, w.ver, err))
	}
	return ev
}

// mk appends a state event to the room
func (w *world) mk(typ string, skey *string, sender string, content map[string]interface{}, auth []string) gmsl.PDU {
	w.depth++
	prev := []string{}
	if w.last != "" {
		prev = []string{w.last}
	}
	ev := w.build(w.room, typ, skey, sender, content, auth, prev, w.depth, t0.Add(time.Duration(w.depth)*time.Second), nil, nil)
	w.last = ev.EventID()
	w.all = append(w.all, ev)
	return ev
}

func member(m string) map[string]interface{} { return map[string]interface{}{"membership": m} }

var (
	cacheMu    sync.Mutex
	worldCache = map[string]*world{}
)

// worldFor builds (or fetches) the room of a scenario.  Worlds are immutable once built.
func worldFor(sc Sc) *world {
	key := fmt.Sprintf("%s|%s|%s", sc.Ver, sc.JR, sc.Mem)
	cacheMu.Lock()
	defer cacheMu.Unlock()
	if w, ok := worldCache[key]; ok {
		return w
	}
	w := buildWorld(sc)
	w.key = key
	worldCache[key] = w
	return w
}

func plContent(users map[string]int) map[string]interface{} {
	return map[string]interface{}{"users": users, "users_default": 0, "invite": 50, "state_default": 50, "events_default": 0,
		"ban": 50, "kick": 50, "redact": 50}
}

func buildWorld(sc Sc) *world {
	ver := sc.Ver
	w := &world{ver: gmsl.RoomVersion(ver), pseudo: ver == pseudoVer}
	impl, err := gmsl.GetRoomVersion(w.ver)
	if err != nil {
		panic(err)
	}
	w.impl = impl
	priv := domainless(ver)

	cc := map[string]interface{}{"room_version": ver}
	if !priv {
		cc["creator"] = userC
		w.room = "!x07:r.test"
		w.other = "!x07other:r.test"
		w.create = w.mk(spec.MRoomCreate, strp(""), userC, cc, []string{})
	} else {
		w.other = "!" + strings.Repeat("B", 43)
		w.create = w.mk(spec.MRoomCreate, strp(""), userC, cc, []string{})
		w.room = "!" + w.create.EventID()[1:]
	}
	w.cjoin = w.mk(spec.MRoomMember, strp(userC), userC, member("join"), w.authIDs(w.create))
	users := map[string]int{}
	if !priv { // a privileged creator is never listed
		users[userC] = 100
	}
	w.pl0 = w.mk(spec.MRoomPowerLevels, strp(""), userC, plContent(users), w.authIDs(w.create, w.cjoin))
	// the room starts invite-only; the invite (if any) is sent then; the current join rules follow
	jr0 := w.mk(spec.MRoomJoinRules, strp(""), userC, map[string]interface{}{"join_rule": "invite"}, w.authIDs(w.create, w.pl0, w.cjoin))
	users2 := map[string]int{}
	for u, l := range users {
		users2[u] = l
	}
	users2["@mod:r.test"] = 50
	w.pl = w.mk(spec.MRoomPowerLevels, strp(""), userC, plContent(users2), w.authIDs(w.create, w.pl0, w.cjoin))
	w.jr = jr0
	if sc.JR == "public" {
		w.jr = w.mk(spec.MRoomJoinRules, strp(""), userC, map[string]interface{}{"join_rule": "public"}, w.authIDs(w.create, w.pl, w.cjoin))
	}
	switch sc.Mem {
	case "none":
	case "invite":
		w.uinv = w.invite()
		w.umem = w.uinv
	case "ban":
		w.umem = w.mk(spec.MRoomMember, strp(userU), userC, member("ban"), w.authIDs(w.create, w.pl, w.cjoin))
	case "join":
		if sc.JR == "invite" {
			w.uinv = w.invite()
		}
		w.umem = w.mk(spec.MRoomMember, strp(userU), userU, member("join"), w.authIDs(w.create, w.pl, w.jr, w.uinv))
	default:
		panic("x07: unknown membership class " + sc.Mem)
	}
	return w
}

// invite: the creator invites the joiner; an invite over federation carries the signature of the invited user's server too
func (w *world) invite() gmsl.PDU {
	ev := w.mk(spec.MRoomMember, strp(userU), userC, member("invite"), w.authIDs(w.create, w.pl, w.jr, w.cjoin))
	if !w.pseudo {
		ev = ev.Sign(string(srvJ.name), srvJ.keyID, srvJ.priv)
		w.all[len(w.all)-1] = ev
	}
	return ev
}

// state is the current room state on R
func (w *world) state() []gmsl.PDU {
	out := []gmsl.PDU{w.create, w.cjoin, w.pl, w.jr}
	if w.umem != nil {
		out = append(out, w.umem)
	}
	return out
}

// chain is the auth chain of the state: every event of the room (all are state events citing each other)
func (w *world) chain() []gmsl.PDU { return append([]gmsl.PDU{}, w.all...) }

func filterState(state []gmsl.PDU, wanted []gmsl.StateKeyTuple) []gmsl.PDU {
	out := []gmsl.PDU{}
	for _, e := range state {
		for _, t := range wanted {
			if e.Type() == t.EventType && e.StateKeyEquals(t.StateKey) {
				out = append(out, e)
				break
			}
		}
	}
	return out
}

// anotherEventID: a well-formed event ID of the room version that names no event of the room
func (w *world) anotherEventID(tag string) string {
	h := sha256.Sum256([]byte("x07-noevent-" + tag))
	switch {
	case formatV1(string(w.ver)):
		return "$x07" + tag + ":r.test"
	case string(w.ver) == "3":
		return "$" + base64.RawStdEncoding.EncodeToString(h[:])
	}
	return "$" + base64.RawURLEncoding.EncodeToString(h[:])
}

// ---------------------------------------------------------------------------------------------------
// keys: a real KeyRing over a scripted key database

type keyDB struct {
	onFetch func()
}

func (db *keyDB) FetcherName() string { return "x07db" }

func (db *keyDB) FetchKeys(ctx context.Context, reqs map[gmsl.PublicKeyLookupRequest]spec.Timestamp) (map[gmsl.PublicKeyLookupRequest]gmsl.PublicKeyLookupResult, error) {
	if db.onFetch != nil {
		db.onFetch()
	}
	out := map[gmsl.PublicKeyLookupRequest]gmsl.PublicKeyLookupResult{}
	for req := range reqs {
		for _, s := range []*server{srvJ, srvR} {
			if req.ServerName == s.name && req.KeyID == s.keyID {
				out[req] = gmsl.PublicKeyLookupResult{VerifyKey: gmsl.VerifyKey{Key: spec.Base64Bytes(s.pub)},
					ExpiredTS: gmsl.PublicKeyNotExpired, ValidUntilTS: spec.AsTimestamp(time.Now().Add(48 * time.Hour))}
			}
		}
	}
	return out, nil
}

func (db *keyDB) StoreKeys(ctx context.Context, r map[gmsl.PublicKeyLookupRequest]gmsl.PublicKeyLookupResult) error {
	return nil
}

func keyRing(onFetch func()) *gmsl.KeyRing {
	return &gmsl.KeyRing{KeyFetchers: []gmsl.KeyFetcher{}, KeyDatabase: &keyDB{onFetch: onFetch}}
}

// validSig: an independent signature check - ed25519 over the canonical redacted event without signatures / unsigned,
// signature entry (name, keyID), public key pub
func validSig(impl gmsl.IRoomVersion, eventJSON []byte, name string, keyID gmsl.KeyID, pub ed25519.PublicKey) bool {
	red, err := impl.RedactEventJSON(eventJSON)
	if err != nil {
		return false
	}
	var m map[string]json.RawMessage
	if err := json.Unmarshal(red, &m); err != nil {
		return false
	}
	var sigs map[string]map[string]string
	if raw, ok := m["signatures"]; ok {
		if err := json.Unmarshal(raw, &sigs); err != nil {
			return false
		}
	}
	delete(m, "signatures")
	delete(m, "unsigned")
	b, err := json.Marshal(m)
	if err != nil {
		return false
	}
	canon, err := gmsl.CanonicalJSON(b)
	if err != nil {
		return false
	}
	sig, ok := sigs[name][string(keyID)]
	if !ok {
		return false
	}
	raw, err := base64.RawStdEncoding.DecodeString(sig)
	if err != nil {
		return false
	}
	return len(pub) == ed25519.PublicKeySize && ed25519.Verify(pub, canon, raw)
}

// signedPart: the event without "signatures" and "unsigned", canonical
func signedPart(eventJSON []byte) string {
	var m map[string]json.RawMessage
	if err := json.Unmarshal(eventJSON, &m); err != nil {
		return "!" + string(eventJSON)
	}
	delete(m, "signatures")
	delete(m, "unsigned")
	b, err := json.Marshal(m)
	if err != nil {
		return "!" + string(eventJSON)
	}
	c, err := gmsl.CanonicalJSON(b)
	if err != nil {
		return "!" + string(b)
	}
	return string(c)
}

// refIDs reads auth_events / prev_events from raw JSON: ["$id", ...] or [["$id", {...}], ...]
func refIDs(raw json.RawMessage) []string {
	var items []json.RawMessage
	if err := json.Unmarshal(raw, &items); err != nil {
		return nil
	}
	out := []string{}
	for _, it := range items {
		var s string
		if json.Unmarshal(it, &s) == nil {
			out = append(out, s)
			continue
		}
		var pair []json.RawMessage
		if json.Unmarshal(it, &pair) == nil && len(pair) > 0 && json.Unmarshal(pair[0], &s) == nil {
			out = append(out, s)
		}
	}
	return out
}

func sameStrings(a, b []string) bool {
	if len(a) != len(b) {
		return false
	}
	for i := range a {
		if a[i] != b[i] {
			return false
		}
	}
	return true
}
