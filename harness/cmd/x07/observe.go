package main

// Projection of one real run to the vocabulary of spec/JoinFlow.tla.

import (
	"encoding/json"
	"fmt"

	gmsl "github.com/matrix-org/gomatrixserverlib"
	"github.com/matrix-org/gomatrixserverlib/spec"
	"github.com/tidwall/gjson"
)

// AbsMade: a make_join request
type AbsMade struct {
	Origin string `json:"origin"` // J | other
	Dest   string `json:"dest"`   // R | other
	Room   string `json:"room"`   // main | other
	User   string `json:"user"`   // joiner | other
}

// AbsSent: the event of a send_join request
type AbsSent struct {
	Origin  string `json:"origin"`
	Dest    string `json:"dest"`
	Parses  bool   `json:"parses"` // an event of the room version J was told
	Type    string `json:"type"`   // member | other
	Room    string `json:"room"`   // main | other
	Sender  string `json:"sender"` // joiner | other
	Skey    string `json:"skey"`   // joiner | other | none
	Redacts bool   `json:"redacts"`
	Mship   string `json:"mship"`   // join | <other> | none
	SigJ    bool   `json:"sigJ"`    // validly signed by J (pseudo IDs: by the joiner's room key)
	Uns     string `json:"uns"`     // empty | caller | template | other
	Callers string `json:"callers"` // caller's content: kept | overridden | dropped | na
	Extra   string `json:"extra"`   // template's additional content key: kept | dropped | na
	Mapping string `json:"mapping"` // mxid_mapping: none | j (signed by J's server for the joiner's room key) | foreign
	Refs    string `json:"refs"`    // auth_events / prev_events: template (those of the template, well-formed) | other
}

// AbsEv: the event handed to the caller
type AbsEv struct {
	Room  string `json:"room"`
	Type  string `json:"type"`
	Skey  string `json:"skey"`
	Mship string `json:"mship"`
	Same  bool   `json:"same"` // the event ID is that of the event J sent
	Body  bool   `json:"body"` // every field but signatures / unsigned is that of the event J sent
	SigJ  bool   `json:"sigJ"`
	SigR  bool   `json:"sigR"`
	Uns   string `json:"uns"` // none | caller | other
}

// AbsSnap: the state snapshot handed to the caller
type AbsSnap struct {
	Create  bool `json:"create"`  // contains a create event of a known room version
	Clean   bool `json:"clean"`   // every event is validly signed by the server of its sender
	Allows  bool `json:"allows"`  // join rules / the joiner's membership in it allow the join
	Dropped int  `json:"dropped"` // events of the answer that are not in the snapshot
}

type Obs struct {
	Res    string    `json:"res"`   // ok | err
	Class  string    `json:"class"` // input | network | protocol | t=..,r=..
	Err    string    `json:"err,omitempty"`
	Made   []AbsMade `json:"made"`
	Sent   []AbsSent `json:"sent"`
	Order  []string  `json:"order"`
	TplAns string    `json:"tplans"`
	Ans    string    `json:"ans"`
	Ret    *AbsEv    `json:"ret,omitempty"`
	Snap   *AbsSnap  `json:"snap,omitempty"`
	SidReq int       `json:"sidreq"`
	Stored int       `json:"stored"`
}

func classOfErr(e *gmsl.FederationError) string {
	switch {
	case e.Transient && !e.Reachable:
		return "network"
	case !e.Transient && e.Reachable:
		return "protocol"
	case !e.Transient && !e.Reachable:
		return "input"
	}
	return fmt.Sprintf("t=%v,r=%v", e.Transient, e.Reachable)
}

func (r *run) joinerSID() string { return r.w.sid(userU) }

func (r *run) roomClass(js []byte, ev gmsl.PDU) string {
	w := r.w
	if gjson.GetBytes(js, "room_id").String() == w.room {
		return "main"
	}
	if ev != nil && domainless(string(w.ver)) && ev.RoomID().String() == w.room {
		return "main"
	}
	return "other"
}

func unsClass(js []byte) string {
	u := gjson.GetBytes(js, "unsigned")
	switch {
	case !u.Exists() || u.Raw == "{}":
		return "empty"
	case u.Get("x07_private").Exists():
		return "caller"
	case u.Get("x07_from_r").Exists():
		return "template"
	}
	return "other"
}

func (r *run) mappingClass(content []byte) string {
	m := gjson.GetBytes(content, "mxid_mapping")
	if !m.Exists() {
		return "none"
	}
	var mm gmsl.MXIDMapping
	if err := json.Unmarshal([]byte(m.Raw), &mm); err != nil {
		return "foreign"
	}
	if string(mm.UserRoomKey) != pseudoSID(userU) || mm.UserID != userU {
		return "foreign"
	}
	// signed by J's server: verify the mapping JSON minus signatures
	var raw map[string]json.RawMessage
	if err := json.Unmarshal([]byte(m.Raw), &raw); err != nil {
		return "foreign"
	}
	if err := gmsl.VerifyJSON(string(srvJ.name), srvJ.keyID, srvJ.pub, []byte(m.Raw)); err != nil {
		return "foreign"
	}
	return "j"
}

func (r *run) describeSent(m sentMsg) AbsSent {
	w := r.w
	a := AbsSent{Origin: "other", Dest: "other", Type: "other", Room: "other", Sender: "other", Skey: "other", Mship: "none",
		Callers: "na", Extra: "na", Refs: "other"}
	if m.origin == string(srvJ.name) {
		a.Origin = "J"
	}
	if m.dest == string(srvR.name) {
		a.Dest = "R"
	}
	js := m.event
	impl, err := gmsl.GetRoomVersion(r.jver)
	if err != nil {
		impl = w.impl
	}
	ev, perr := impl.NewEventFromUntrustedJSON(js)
	a.Parses = perr == nil && ev != nil && !ev.Redacted()
	a.Room = r.roomClass(js, ev)
	if gjson.GetBytes(js, "type").String() == spec.MRoomMember {
		a.Type = "member"
	}
	if gjson.GetBytes(js, "sender").String() == r.joinerSID() {
		a.Sender = "joiner"
	}
	sk := gjson.GetBytes(js, "state_key")
	switch {
	case !sk.Exists():
		a.Skey = "none"
	case sk.String() == r.joinerSID():
		a.Skey = "joiner"
	}
	if v := gjson.GetBytes(js, "redacts"); v.Exists() && v.String() != "" {
		a.Redacts = true
	}
	if v := gjson.GetBytes(js, "content.membership"); v.Type == gjson.String {
		a.Mship = v.String()
	}
	s := r.jSigner()
	a.SigJ = validSig(impl, js, string(s.name), s.keyID, s.pub)
	a.Uns = unsClass(js)
	content := []byte(gjson.GetBytes(js, "content").Raw)
	dn := gjson.GetBytes(content, "displayname")
	switch {
	case r.sc.Content != "profile":
		a.Callers = "na"
	case dn.String() == callerDisplayname:
		a.Callers = "kept"
	case dn.Exists():
		a.Callers = "overridden"
	default:
		a.Callers = "dropped"
	}
	if r.sc.Tpl == "t_extra" {
		a.Extra = "dropped"
		if gjson.GetBytes(content, tplExtraKey).String() == "kept" {
			a.Extra = "kept"
		}
	}
	a.Mapping = r.mappingClass(content)
	if r.tplSent != nil {
		wantAuth, wantPrev := wellFormedIDs(r.tplSent.AuthEvents), wellFormedIDs(r.tplSent.PrevEvents)
		gotAuth := refIDs(json.RawMessage(gjson.GetBytes(js, "auth_events").Raw))
		gotPrev := refIDs(json.RawMessage(gjson.GetBytes(js, "prev_events").Raw))
		if sameStrings(wantAuth, gotAuth) && sameStrings(wantPrev, gotPrev) && gjson.GetBytes(js, "depth").Int() == r.tplSent.Depth {
			a.Refs = "template"
		}
	}
	return a
}

// wellFormedIDs: the event IDs among the entries of a reference list (strings or [id, hashes] pairs)
func wellFormedIDs(v interface{}) []string {
	b, err := json.Marshal(v)
	if err != nil {
		return nil
	}
	return refIDs(b)
}

func (r *run) describeReturned(ev gmsl.PDU) AbsEv {
	w := r.w
	js := ev.JSON()
	a := AbsEv{Room: r.roomClass(js, ev), Type: "other", Skey: "other", Mship: "none", Uns: "other"}
	if ev.Type() == spec.MRoomMember {
		a.Type = "member"
	}
	sk := ev.StateKey()
	switch {
	case sk == nil:
		a.Skey = "none"
	case *sk == r.joinerSID():
		a.Skey = "joiner"
	}
	if v := gjson.GetBytes(js, "content.membership"); v.Type == gjson.String {
		a.Mship = v.String()
	}
	impl, err := gmsl.GetRoomVersion(r.jver)
	if err != nil {
		impl = w.impl
	}
	if len(r.sent) > 0 {
		sent := r.sent[len(r.sent)-1].event
		if se, err := impl.NewEventFromTrustedJSON(sent, false); err == nil {
			a.Same = se.EventID() == ev.EventID()
		}
		a.Body = signedPart(sent) == signedPart(js)
	}
	s := r.jSigner()
	a.SigJ = validSig(impl, js, string(s.name), s.keyID, s.pub)
	a.SigR = validSig(impl, js, string(srvR.name), srvR.keyID, srvR.pub)
	switch unsClass(js) {
	case "empty":
		a.Uns = "none"
	case "caller":
		a.Uns = "caller"
	}
	return a
}

func (r *run) describeSnapshot(sr gmsl.StateResponse) AbsSnap {
	w := r.w
	impl, err := gmsl.GetRoomVersion(r.jver)
	if err != nil {
		impl = w.impl
	}
	a := AbsSnap{Clean: true}
	state := sr.GetStateEvents().TrustedEvents(r.jver, false)
	chain := sr.GetAuthEvents().TrustedEvents(r.jver, false)
	wantState, wantChain := r.stateLists()
	a.Dropped = len(wantState) + len(wantChain) - len(state) - len(chain)
	jr, mem := "none", "none"
	for _, e := range append(append([]gmsl.PDU{}, state...), chain...) {
		signer := w.signerOf(w.userOfSender(string(e.SenderID())))
		if !validSig(impl, e.JSON(), string(signer.name), signer.keyID, signer.pub) {
			a.Clean = false
		}
	}
	for _, e := range state {
		switch {
		case e.Type() == spec.MRoomCreate && e.StateKeyEquals(""):
			v := gjson.GetBytes(e.Content(), "room_version").String()
			if v == "" {
				v = "1"
			}
			if _, err := gmsl.GetRoomVersion(gmsl.RoomVersion(v)); err == nil {
				a.Create = true
			}
		case e.Type() == spec.MRoomJoinRules && e.StateKeyEquals(""):
			jr = gjson.GetBytes(e.Content(), "join_rule").String()
		case e.Type() == spec.MRoomMember && e.StateKeyEquals(r.joinerSID()):
			mem, _ = e.Membership()
		}
	}
	a.Allows = a.Create && (mem == "invite" || mem == "join" || (jr == "public" && mem != "ban"))
	return a
}

func (w *world) userOfSender(sender string) string {
	if w.pseudo {
		if u, ok := userOfSID(sender); ok {
			return u
		}
	}
	return sender
}

// observe runs the scenario once
func observe(sc Sc) (*run, Obs) {
	w := worldFor(sc)
	r := &run{sc: sc, w: w, stored: map[string]string{}, tplAns: "none", ans: "none", jver: w.ver}
	out := r.perform()
	o := Obs{Res: "ok", Class: "", Made: []AbsMade{}, Sent: []AbsSent{}, Order: append([]string{}, r.order...), TplAns: r.tplAns, Ans: r.ans,
		SidReq: r.sidAsked, Stored: len(r.stored)}
	if out.ferr != nil {
		o.Res, o.Class, o.Err = "err", classOfErr(out.ferr), out.ferr.Error()
		if out.ferr.ServerName != srvR.name {
			o.Class += "/server=" + string(out.ferr.ServerName)
		}
	}
	for _, m := range r.made {
		a := AbsMade{Origin: "other", Dest: "other", Room: "other", User: "other"}
		if m.origin == string(srvJ.name) {
			a.Origin = "J"
		}
		if m.dest == string(srvR.name) {
			a.Dest = "R"
		}
		if m.room == w.room {
			a.Room = "main"
		}
		if m.user == userU {
			a.User = "joiner"
		}
		o.Made = append(o.Made, a)
	}
	for _, m := range r.sent {
		o.Sent = append(o.Sent, r.describeSent(m))
	}
	if out.ferr == nil && out.resp != nil {
		if out.resp.JoinEvent != nil {
			e := r.describeReturned(out.resp.JoinEvent)
			o.Ret = &e
		}
		if out.resp.StateSnapshot != nil {
			s := r.describeSnapshot(out.resp.StateSnapshot)
			o.Snap = &s
		}
	}
	return r, o
}
