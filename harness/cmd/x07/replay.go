package main

// Replay of one JoinFlow_gen record: run the real PerformJoin once, project what happened to the vocabulary of the
// specification (observe.go) and compare step by step: the make_join request, the event given to send_join, the
// outcome and its error class, the order of requests and verification, the returned event, the state snapshot.

import (
	"encoding/json"
	"fmt"
	"sort"
	"strings"

	"verifharness/hx"
)

// BuiltAbs: the event J built, as JoinFlow.tla describes it
type BuiltAbs struct {
	Present bool   `json:"present"`
	Type    string `json:"type"`
	Room    string `json:"room"`
	Sender  string `json:"sender"`
	Skey    string `json:"skey"`
	Redacts bool   `json:"redacts"`
	Mship   string `json:"mship"`
	Callers string `json:"callers"`
	Extra   string `json:"extra"`
	Mapping string `json:"mapping"`
	Uns     string `json:"uns"`
	Refs    string `json:"refs"`
	SigJ    bool   `json:"sigJ"`
}

// RetAbs: an answer / returned event, as JoinFlow.tla describes it
type RetAbs struct {
	Present bool   `json:"present"`
	Parses  bool   `json:"parses"`
	Room    string `json:"room"`
	Type    string `json:"type"`
	Skey    string `json:"skey"`
	Mship   string `json:"mship"`
	Same    bool   `json:"same"`
	Body    bool   `json:"body"`
	SigJ    bool   `json:"sigJ"`
	SigR    bool   `json:"sigR"`
	Uns     string `json:"uns"`
}

type SnapAbs struct {
	Present bool `json:"present"`
	Create  bool `json:"create"`
	Clean   bool `json:"clean"`
	Allows  bool `json:"allows"`
	Dropped int  `json:"dropped"`
}

type Rec struct {
	Ver string `json:"ver"`
	Sc  Sc     `json:"sc"`
	Out struct {
		Res   string `json:"res"`
		Class string `json:"class"`
		Why   string `json:"why"`
	} `json:"out"`
	Reasons   []string  `json:"reasons"`
	MayRefuse bool      `json:"mayrefuse"`
	Made      []AbsMade `json:"made"`
	Sent      []struct {
		Origin string   `json:"origin"`
		Dest   string   `json:"dest"`
		Ev     BuiltAbs `json:"ev"`
	} `json:"sent"`
	Order  []string `json:"order"`
	TplAns string   `json:"tplans"`
	Ans    string   `json:"ans"`
	Ret    RetAbs   `json:"ret"`
	Snap   SnapAbs  `json:"snap"`
	Asb    struct {
		Ret     RetAbs `json:"ret"`
		Callers string `json:"callers"`
		Mapping string `json:"mapping"`
	} `json:"asb"`
}

func bad(key, what string, want, got interface{}) hx.Result {
	return hx.Result{OK: false, Key: "X07/" + key, What: what, Want: want, Got: got}
}

func sortedCopy(s []string) []string {
	o := append([]string{}, s...)
	sort.Strings(o)
	return o
}

// retOf: the returned event in the fields the specification compares
func retOf(a RetAbs) AbsEv {
	return AbsEv{Room: a.Room, Type: a.Type, Skey: a.Skey, Mship: a.Mship, Same: a.Same, Body: a.Body, SigJ: a.SigJ, SigR: a.SigR, Uns: a.Uns}
}

func diffRet(want, got AbsEv) string {
	var d []string
	add := func(n string, a, b interface{}) {
		if a != b {
			d = append(d, fmt.Sprintf("%s:%v->%v", n, a, b))
		}
	}
	add("room", want.Room, got.Room)
	add("type", want.Type, got.Type)
	add("skey", want.Skey, got.Skey)
	add("mship", want.Mship, got.Mship)
	add("same", want.Same, got.Same)
	add("body", want.Body, got.Body)
	add("sigJ", want.SigJ, got.SigJ)
	add("sigR", want.SigR, got.SigR)
	add("uns", want.Uns, got.Uns)
	return strings.Join(d, ",")
}

// diffSent compares the event on the wire with the built event of the specification; content: only the caller's
// content and the mapping differ
func diffSent(want BuiltAbs, got AbsSent) (all string, contentOnly bool) {
	var d []string
	content := 0
	add := func(n string, a, b interface{}, isContent bool) {
		if a != b {
			d = append(d, fmt.Sprintf("%s:%v->%v", n, a, b))
			if isContent {
				content++
			}
		}
	}
	add("parses", true, got.Parses, false)
	add("type", want.Type, got.Type, false)
	add("room", want.Room, got.Room, false)
	add("sender", want.Sender, got.Sender, false)
	add("skey", want.Skey, got.Skey, false)
	add("redacts", want.Redacts, got.Redacts, false)
	add("mship", want.Mship, got.Mship, false)
	add("sigJ", want.SigJ, got.SigJ, false)
	add("unsigned", want.Uns, got.Uns, false)
	add("extra", want.Extra, got.Extra, false)
	add("refs", want.Refs, got.Refs, false)
	add("callers", want.Callers, got.Callers, true)
	add("mapping", want.Mapping, got.Mapping, true)
	return strings.Join(d, ","), len(d) > 0 && content == len(d)
}

func replay(raw json.RawMessage) hx.Result {
	var rec Rec
	if err := json.Unmarshal(raw, &rec); err != nil {
		panic(fmt.Sprintf("x07: bad record: %v", err))
	}
	sc := rec.Sc
	r, o := observe(sc)
	reasons := strings.Join(sortedCopy(rec.Reasons), "+")
	if reasons == "" {
		reasons = "none"
	}
	where := fmt.Sprintf("tpl=%s ans=%s st=%s", sc.Tpl, sc.Ans, sc.St)
	path := "userid"
	if r.w.pseudo {
		path = "pseudoid"
	}

	// ---- make_join
	if len(o.Made) != len(rec.Made) {
		return bad(fmt.Sprintf("make_join/requests/%d-instead-of-%d/%s", len(o.Made), len(rec.Made), reasons),
			fmt.Sprintf("the specification has %d make_join request(s), the real run %d (%s)", len(rec.Made), len(o.Made), where), len(rec.Made), len(o.Made))
	}
	for i := range o.Made {
		if o.Made[i] != rec.Made[i] {
			return bad("make_join/request", fmt.Sprintf("make_join does not name J's user and the room at R: %+v", o.Made[i]), rec.Made[i], o.Made[i])
		}
	}

	// ---- send_join: was it sent
	if len(o.Sent) != len(rec.Sent) {
		if len(o.Sent) == 0 && rec.MayRefuse && o.Res == "err" && o.Class == "protocol" {
			// the other design the specification allows: a template that is not a join template of the user is refused
			return hx.Result{OK: true, NT: fmt.Sprintf("%s/template-refused/%s", path, sc.Tpl)}
		}
		k := "sent-but-must-not"
		if len(o.Sent) < len(rec.Sent) {
			k = "not-sent"
		}
		return bad(fmt.Sprintf("send_join/%s/tpl=%s/%s", k, sc.Tpl, reasons),
			fmt.Sprintf("the specification has %d send_join request(s), the real run %d (%s; real outcome %s %s %s)", len(rec.Sent), len(o.Sent), where, o.Res, o.Class, o.Err),
			len(rec.Sent), len(o.Sent))
	}
	// ---- send_join: the event
	for i, got := range o.Sent {
		want := rec.Sent[i]
		if got.Origin != want.Origin || got.Dest != want.Dest {
			return bad("send_join/route", fmt.Sprintf("send_join goes from %s to %s", got.Origin, got.Dest), want.Origin+"->"+want.Dest, got.Origin+"->"+got.Dest)
		}
		if d, contentOnly := diffSent(want.Ev, got); d != "" {
			if contentOnly && got.Callers == rec.Asb.Callers && got.Mapping == rec.Asb.Mapping {
				return bad("template-content/"+sc.Tpl+"/template-wins",
					fmt.Sprintf("%s: the content of R's make_join template replaces what the caller (and J) put into the join that J signs and sends: %s",
						path, d), want.Ev, got)
			}
			return bad("send_join/event/"+d, fmt.Sprintf("%s: the event given to send_join is not the join the specification describes: %s (%s)", path, d, where), want.Ev, got)
		}
	}

	// ---- outcome
	if (o.Res == "ok") != (rec.Out.Res == "ok") {
		if o.Res == "ok" {
			return bad("result/accepted-but-must-fail/"+reasons,
				fmt.Sprintf("%s: PerformJoin succeeded although %v stands against the call (%s)", path, rec.Reasons, where), rec.Out, o)
		}
		return bad("result/refused-but-nothing-stands-against-it/"+o.Class,
			fmt.Sprintf("%s: nothing stands against this join, PerformJoin failed: %s (%s)", path, o.Err, where), rec.Out, o.Err)
	}
	if o.Res == "err" {
		if o.Class != rec.Out.Class {
			return bad(fmt.Sprintf("error-class/%s/%s-instead-of-%s", rec.Out.Why, o.Class, rec.Out.Class),
				fmt.Sprintf("%s: the call fails for %q: the FederationError should be of class %s, it is %s (%s)", path, rec.Out.Why, rec.Out.Class, o.Class, o.Err),
				rec.Out.Class, o.Class)
		}
		return hx.Result{OK: true, NT: fmt.Sprintf("%s/err/%s/%s/tpl=%s/ans=%s/st=%s", path, o.Class, reasons, sc.Tpl, sc.Ans, sc.St)}
	}

	// ---- success: order of the observable steps (requests, then the verification of the answer, then the return)
	wantOrder := []string{}
	for _, s := range rec.Order {
		if s == "make_join" || s == "send_join" || s == "check" {
			wantOrder = append(wantOrder, s)
		}
	}
	if !sameStrings(o.Order, wantOrder) {
		return bad(fmt.Sprintf("order/%s-instead-of-%s", strings.Join(o.Order, ","), strings.Join(wantOrder, ",")),
			fmt.Sprintf("observable steps: specification %v, real run %v", wantOrder, o.Order), wantOrder, o.Order)
	}
	if r.w.pseudo != (o.SidReq == 1) || o.SidReq > 1 {
		return bad(fmt.Sprintf("%s/sender-id/requested=%d", path, o.SidReq), "GetOrCreateSenderID is to be called once in a pseudo-ID room and never otherwise", nil, o.SidReq)
	}

	// ---- the event handed to the caller
	if o.Ret == nil {
		return bad("result/nothing-returned", "PerformJoin returned no join event and no error", rec.Ret, nil)
	}
	want := retOf(rec.Ret)
	if *o.Ret != want {
		d := diffRet(want, *o.Ret)
		if sc.Ans != "honest" && *o.Ret == retOf(rec.Asb.Ret) {
			return bad("adopted-answer/"+sc.Ans+"/returned-unchecked",
				fmt.Sprintf("%s: R answered send_join with %q instead of the join it was sent; PerformJoin adopted that event and returned it without an error (%s)",
					path, sc.Ans, d), want, *o.Ret)
		}
		return bad("returned/"+d, fmt.Sprintf("%s: the event handed to the caller differs from the join the specification describes in %s (%s)", path, d, where), want, *o.Ret)
	}

	// ---- the state snapshot
	if o.Snap == nil {
		return bad("snapshot/none", "PerformJoin returned no state snapshot", rec.Snap, nil)
	}
	ws := AbsSnap{Create: rec.Snap.Create, Clean: rec.Snap.Clean, Allows: rec.Snap.Allows, Dropped: rec.Snap.Dropped}
	if *o.Snap != ws {
		return bad(fmt.Sprintf("snapshot/st=%s", sc.St), fmt.Sprintf("the state snapshot handed to the caller: specification %+v, real run %+v", ws, *o.Snap), ws, *o.Snap)
	}
	return hx.Result{OK: true, NT: fmt.Sprintf("%s/ok/tpl=%s/ans=%s/st=%s/content=%s/unsigned=%s", path, sc.Tpl, sc.Ans, sc.St, sc.Content, sc.Unsigned)}
}
