package main

// One real PerformJoin call per record: J's scripted queriers and key ring (observed: the order of the two requests
// and of the verification of the answer), and the federation client that stands for the network and the resident
// server R - the real HandleMakeJoin / HandleSendJoin for the honest behaviour, a scripted server otherwise.

import (
	"context"
	"crypto/ed25519"
	"crypto/sha256"
	"encoding/base64"
	"encoding/json"
	"errors"
	"fmt"
	"strings"
	"sync"
	"time"

	gmsl "github.com/matrix-org/gomatrixserverlib"
	"github.com/matrix-org/gomatrixserverlib/fclient"
	"github.com/matrix-org/gomatrixserverlib/spec"
	"github.com/tidwall/gjson"
	"github.com/tidwall/sjson"
)

type madeMsg struct {
	origin, dest, room, user string
}

type sentMsg struct {
	origin, dest string
	event        []byte
}

type run struct {
	sc        Sc
	w         *world
	mu        sync.Mutex
	order     []string // "make_join" / "send_join" / "check" (first use of the key ring or the user querier after send_join)
	made      []madeMsg
	sent      []sentMsg
	stored    map[string]string
	tplAns    string // none | event | refused | error
	ans       string // none | answer | refused | error
	tplSent   *gmsl.ProtoEvent
	jver      gmsl.RoomVersion // the room version the make_join answer leads J to
	answerEv  []byte           // the "event" of the send_join answer
	sidAsked  int
	checkSeen bool
}

func (r *run) logStep(s string) {
	r.mu.Lock()
	r.order = append(r.order, s)
	r.mu.Unlock()
}

// noteCheck: J consults its key ring / user querier: after send_join that is the verification of the answer
func (r *run) noteCheck() {
	r.mu.Lock()
	defer r.mu.Unlock()
	if len(r.sent) > 0 && !r.checkSeen {
		r.checkSeen = true
		r.order = append(r.order, "check")
	}
}

type netError struct{ what string }

func (e netError) Error() string { return "x07: " + e.what }

// --------------------------------------------------------------------------------------------------- J's side

func (r *run) userIDForSender(roomID spec.RoomID, senderID spec.SenderID) (*spec.UserID, error) {
	r.noteCheck()
	return r.uidOf(senderID)
}

func (r *run) uidOf(senderID spec.SenderID) (*spec.UserID, error) {
	if !r.w.pseudo {
		return spec.NewUserID(string(senderID), true)
	}
	r.mu.Lock()
	u, ok := r.stored[string(senderID)]
	r.mu.Unlock()
	if !ok {
		u, ok = userOfSID(string(senderID))
	}
	if !ok {
		return nil, nil
	}
	return spec.NewUserID(u, true)
}

func (r *run) createSenderID(ctx context.Context, userID spec.UserID, roomID spec.RoomID, roomVersion string) (spec.SenderID, ed25519.PrivateKey, error) {
	r.mu.Lock()
	r.sidAsked++
	r.mu.Unlock()
	if r.sc.Env == "sid_err" {
		return "", nil, errors.New("x07: cannot create a room key")
	}
	k := roomKey(userID.String())
	return spec.SenderIDFromPseudoIDKey(k), k, nil
}

func (r *run) storeSenderID(ctx context.Context, senderID spec.SenderID, userID string, id spec.RoomID) error {
	if r.sc.Env == "store_err" {
		return errors.New("x07: cannot store the sender ID")
	}
	r.mu.Lock()
	r.stored[string(senderID)] = userID
	r.mu.Unlock()
	return nil
}

const callerDisplayname = "U of J (caller)"

func (r *run) input() gmsl.PerformJoinInput {
	w := r.w
	uid := mustUserID(userU)
	rid := mustRoomID(w.room)
	in := gmsl.PerformJoinInput{
		UserID:     &uid,
		RoomID:     &rid,
		ServerName: srvR.name,
		PrivateKey: srvJ.priv,
		KeyID:      srvJ.keyID,
		KeyRing:    keyRing(r.noteCheck),
		EventProvider: func(roomVer gmsl.RoomVersion, eventIDs []string) ([]gmsl.PDU, error) {
			return nil, nil
		},
		UserIDQuerier:             r.userIDForSender,
		GetOrCreateSenderID:       r.createSenderID,
		StoreSenderIDFromPublicID: r.storeSenderID,
	}
	if r.sc.Content == "profile" {
		in.Content = map[string]interface{}{"displayname": callerDisplayname}
	}
	if r.sc.Unsigned == "some" {
		in.Unsigned = map[string]interface{}{"x07_private": "caller-only"}
	}
	switch r.sc.Input {
	case "nil_user":
		in.UserID = nil
	case "nil_room":
		in.RoomID = nil
	case "nil_keyring":
		in.KeyRing = nil
	}
	return in
}

// --------------------------------------------------------------------------------------------------- R: make_join

type rQuerier struct{ w *world }

func (q rQuerier) CurrentStateEvent(ctx context.Context, roomID spec.RoomID, eventType string, stateKey string) (gmsl.PDU, error) {
	for _, e := range q.w.state() {
		if e.Type() == eventType && e.StateKeyEquals(stateKey) {
			return e, nil
		}
	}
	return nil, nil
}

func (q rQuerier) InvitePending(ctx context.Context, roomID spec.RoomID, senderID spec.SenderID) (bool, error) {
	if q.w.umem == nil {
		return false, nil
	}
	m, _ := q.w.umem.Membership()
	return m == spec.Invite, nil
}

func (q rQuerier) RestrictedRoomJoinInfo(ctx context.Context, roomID spec.RoomID, senderID spec.SenderID, localServerName spec.ServerName) (*gmsl.RestrictedRoomJoinInfo, error) {
	return nil, nil
}

// rSenderOf: the sender ID R has for the joiner - in a pseudo-ID room it knows one only if the user has been seen
func (w *world) rSenderOf(user string) string {
	if w.pseudo && w.umem == nil {
		return user
	}
	return w.sid(user)
}

// fillTemplate is R's BuildEventTemplate: auth / prev events from the current state, depth
func (w *world) fillTemplate(proto *gmsl.ProtoEvent) ([]gmsl.PDU, error) {
	state := w.state()
	provider, err := gmsl.NewAuthEvents(state)
	if err != nil {
		return nil, err
	}
	proto.Version = w.impl
	needed, err := gmsl.StateNeededForProtoEvent(proto)
	if err != nil {
		return nil, err
	}
	refs, err := needed.AuthEventReferences(provider)
	if err != nil {
		return nil, err
	}
	if domainless(string(w.ver)) {
		kept := refs[:0]
		for _, id := range refs {
			if id != w.create.EventID() {
				kept = append(kept, id)
			}
		}
		refs = kept
	}
	proto.AuthEvents = refs
	proto.PrevEvents = []string{w.last}
	proto.Depth = w.depth + 1
	return state, nil
}

func (w *world) templateBuilder() func(*gmsl.ProtoEvent) (gmsl.PDU, []gmsl.PDU, error) {
	return func(proto *gmsl.ProtoEvent) (gmsl.PDU, []gmsl.PDU, error) {
		state, err := w.fillTemplate(proto)
		if err != nil {
			return nil, nil, err
		}
		ev, err := w.impl.NewEventBuilderFromProtoEvent(proto).Build(t0.Add(time.Hour), srvR.name, srvR.keyID, srvR.priv)
		if err != nil {
			return nil, nil, err
		}
		return ev, state, nil
	}
}

func (r *run) rUserIDQuerier(roomID spec.RoomID, senderID spec.SenderID) (*spec.UserID, error) {
	if strings.HasPrefix(string(senderID), "@") {
		return spec.NewUserID(string(senderID), true)
	}
	return r.uidOf(senderID)
}

func allVersions() []gmsl.RoomVersion {
	out := []gmsl.RoomVersion{}
	for v := range gmsl.RoomVersions() {
		out = append(out, v)
	}
	return out
}

// honestTemplate: the real HandleMakeJoin with R's view of the room
func (r *run) honestTemplate(origin spec.ServerName, roomID, userID string) (*fclient.RespMakeJoin, error) {
	w := r.w
	rid, err := spec.NewRoomID(roomID)
	if err != nil {
		return nil, err
	}
	uid, err := spec.NewUserID(userID, true)
	if err != nil {
		return nil, err
	}
	in := gmsl.HandleMakeJoinInput{
		Context:            context.Background(),
		UserID:             *uid,
		SenderID:           spec.SenderID(w.rSenderOf(userID)),
		RoomID:             *rid,
		RoomVersion:        w.ver,
		RemoteVersions:     allVersions(),
		RequestOrigin:      origin,
		LocalServerName:    srvR.name,
		LocalServerInRoom:  roomID == w.room,
		RoomQuerier:        rQuerier{w},
		UserIDQuerier:      r.rUserIDQuerier,
		BuildEventTemplate: w.templateBuilder(),
	}
	resp, err := gmsl.HandleMakeJoin(in)
	if err != nil {
		return nil, err
	}
	if resp == nil {
		return nil, errors.New("HandleMakeJoin returned neither a template nor an error")
	}
	return &fclient.RespMakeJoin{JoinEvent: resp.JoinTemplateEvent, RoomVersion: resp.RoomVersion}, nil
}

// plainTemplate: the template an obliging R hands out without looking at its state
func (r *run) plainTemplate() fclient.RespMakeJoin {
	w := r.w
	sid := w.rSenderOf(userU)
	p := gmsl.ProtoEvent{SenderID: sid, RoomID: w.room, Type: spec.MRoomMember, StateKey: strp(sid), Content: []byte(`{"membership":"join"}`)}
	if _, err := w.fillTemplate(&p); err != nil {
		panic(err)
	}
	if formatV1(string(w.ver)) {
		p.AuthEvents = toRefs(p.AuthEvents.([]string))
		p.PrevEvents = toRefs(p.PrevEvents.([]string))
	}
	p.Version = nil
	return fclient.RespMakeJoin{JoinEvent: p, RoomVersion: w.ver}
}

// toRefs: room version 1 / 2 event references [id, {"sha256": ..}]
func toRefs(ids []string) []interface{} {
	out := []interface{}{}
	for _, id := range ids {
		h := sha256.Sum256([]byte(id))
		out = append(out, []interface{}{id, map[string]string{"sha256": base64.RawStdEncoding.EncodeToString(h[:])}})
	}
	return out
}

func idsOf(v interface{}) []string {
	b, err := json.Marshal(v)
	if err != nil {
		panic(err)
	}
	return refIDs(b)
}

func asList(v interface{}) []interface{} {
	b, err := json.Marshal(v)
	if err != nil {
		panic(err)
	}
	var out []interface{}
	if err := json.Unmarshal(b, &out); err != nil {
		panic(err)
	}
	return out
}

// otherVersion: a room version of the other event format (what J is led to by tpl = v_other)
func otherVersion(ver string) gmsl.RoomVersion {
	if formatV1(ver) {
		return "10"
	}
	return "1"
}

func setContent(c []byte, key string, v interface{}) []byte {
	if len(c) == 0 || string(c) == "null" {
		c = []byte(`{}`)
	}
	out, err := sjson.SetBytes(c, key, v)
	if err != nil {
		panic(err)
	}
	return out
}

const (
	tplDisplayname = "set by R (template)"
	tplExtraKey    = "x07_extra"
)

// MakeJoin: GET /_matrix/federation/v1/make_join
func (r *run) MakeJoin(ctx context.Context, origin, s spec.ServerName, roomID, userID string) (gmsl.MakeJoinResponse, error) {
	r.logStep("make_join")
	r.mu.Lock()
	r.made = append(r.made, madeMsg{origin: string(origin), dest: string(s), room: roomID, user: userID})
	r.mu.Unlock()
	w := r.w
	var wire fclient.RespMakeJoin
	switch r.sc.Tpl {
	case "neterr":
		r.tplAns = "error"
		return nil, netError{"connection refused"}
	case "honest":
		resp, err := r.honestTemplate(origin, roomID, userID)
		if err != nil {
			r.tplAns = "refused"
			return nil, netError{"remote refused make_join: " + err.Error()}
		}
		wire = *resp
	default:
		wire = r.plainTemplate()
		t := &wire.JoinEvent
		switch r.sc.Tpl {
		case "lenient":
		case "t_type":
			t.Type = "m.room.message"
		case "t_room":
			t.RoomID = w.other
		case "t_sender":
			t.SenderID = userEvil
		case "t_skey":
			t.StateKey = strp(userEvil)
		case "t_nokey":
			t.StateKey = nil
		case "t_redacts":
			t.Redacts = w.pl.EventID()
		case "t_mship":
			t.Content = setContent(t.Content, "membership", "leave")
		case "t_nomship":
			t.Content = []byte(`{}`)
		case "t_nocontent":
			t.Content = []byte("null")
		case "t_extra":
			t.Content = setContent(t.Content, tplExtraKey, "kept")
		case "t_override":
			// the template sets what the caller (and J itself) sets
			t.Content = setContent(t.Content, "displayname", tplDisplayname)
			if w.pseudo {
				t.Content = setContent(t.Content, "mxid_mapping", map[string]interface{}{"user_room_key": pseudoSID(userEvil), "user_id": userU,
					"signatures": map[string]interface{}{}})
			}
		case "t_unsigned":
			t.Unsigned = []byte(`{"x07_from_r":"template"}`)
		case "t_auth_malformed":
			t.AuthEvents = append(asList(t.AuthEvents), 5, map[string]interface{}{"x07": true})
		case "t_prev_malformed":
			t.PrevEvents = append(asList(t.PrevEvents), 5, map[string]interface{}{"x07": true})
		case "t_otherformat":
			if formatV1(string(w.ver)) {
				t.AuthEvents, t.PrevEvents = idsOf(t.AuthEvents), idsOf(t.PrevEvents)
			} else {
				t.AuthEvents, t.PrevEvents = toRefs(idsOf(t.AuthEvents)), toRefs(idsOf(t.PrevEvents))
			}
		case "v_absent":
			wire.RoomVersion = ""
		case "v_unknown":
			wire.RoomVersion = unknownVer
		case "v_other":
			wire.RoomVersion = otherVersion(string(w.ver))
		default:
			panic("x07: unknown template behaviour " + r.sc.Tpl)
		}
	}
	r.tplAns = "event"
	// over the wire
	b, err := json.Marshal(wire)
	if err != nil {
		panic(err)
	}
	if r.sc.Tpl == "v_absent" {
		if b, err = sjson.DeleteBytes(b, "room_version"); err != nil {
			panic(err)
		}
	}
	var got fclient.RespMakeJoin
	if err := json.Unmarshal(b, &got); err != nil {
		panic(err)
	}
	cp := got.JoinEvent
	r.tplSent = &cp
	r.jver = got.RoomVersion
	if r.jver == "" {
		r.jver = "4"
		if formatV1(string(w.ver)) != (r.sc.Tpl == "t_otherformat") {
			r.jver = "1"
		}
	}
	return &got, nil
}

// --------------------------------------------------------------------------------------------------- R: send_join

type rMembership struct{ w *world }

func (m rMembership) CurrentMembership(ctx context.Context, roomID spec.RoomID, senderID spec.SenderID) (string, error) {
	if m.w.umem == nil || string(senderID) != m.w.sid(userU) {
		return "", nil
	}
	return m.w.umem.Membership()
}

// honestSendJoin: the real HandleSendJoin with R's key, a real key ring, R's membership table
func (r *run) honestSendJoin(origin spec.ServerName, event gmsl.PDU) (gmsl.PDU, error) {
	w := r.w
	rstore := map[string]string{}
	in := gmsl.HandleSendJoinInput{
		Context:           context.Background(),
		RoomID:            mustRoomID(event.RoomID().String()),
		EventID:           event.EventID(),
		JoinEvent:         event.JSON(),
		RoomVersion:       w.ver,
		RequestOrigin:     origin,
		LocalServerName:   srvR.name,
		KeyID:             srvR.keyID,
		PrivateKey:        srvR.priv,
		Verifier:          keyRing(nil),
		MembershipQuerier: rMembership{w},
		UserIDQuerier: func(roomID spec.RoomID, senderID spec.SenderID) (*spec.UserID, error) {
			if u, ok := rstore[string(senderID)]; ok {
				return spec.NewUserID(u, true)
			}
			if w.pseudo {
				return nil, nil
			}
			return spec.NewUserID(string(senderID), true)
		},
		StoreSenderIDFromPublicID: func(ctx context.Context, senderID spec.SenderID, userID string, id spec.RoomID) error {
			rstore[string(senderID)] = userID
			return nil
		},
	}
	resp, err := gmsl.HandleSendJoin(in)
	if err != nil {
		return nil, err
	}
	if resp == nil || resp.JoinEvent == nil {
		return nil, errors.New("HandleSendJoin returned neither an event nor an error")
	}
	return resp.JoinEvent, nil
}

func escapeKey(k string) string { return strings.ReplaceAll(k, ".", `\.`) }

// jSigner: who signs J's join (the server; in a pseudo-ID room the joiner's room key)
func (r *run) jSigner() *server {
	if r.w.pseudo {
		return pseudoSigner(userU)
	}
	return srvJ
}

// protoOf: the fields of an event as a proto event (references as plain IDs)
func protoOf(ev gmsl.PDU) gmsl.ProtoEvent {
	return gmsl.ProtoEvent{SenderID: string(ev.SenderID()), RoomID: ev.RoomID().String(), Type: ev.Type(), StateKey: ev.StateKey(),
		PrevEvents: ev.PrevEventIDs(), AuthEvents: refIDs(json.RawMessage(gjson.GetBytes(ev.JSON(), "auth_events").Raw)),
		Depth: ev.Depth(), Content: append([]byte(nil), ev.Content()...)}
}

func (w *world) buildProto(impl gmsl.IRoomVersion, p gmsl.ProtoEvent, at time.Time, signer *server) gmsl.PDU {
	if domainless(string(w.ver)) && p.Type == spec.MRoomCreate {
		p.RoomID = ""
	}
	ev, err := impl.NewEventBuilderFromProtoEvent(&p).Build(at, signer.name, signer.keyID, signer.priv)
	if err != nil {
		panic(fmt.Sprintf("x07: cannot build a %s answer event: %v", p.Type, err))
	}
	return ev
}

func mustTrusted(impl gmsl.IRoomVersion, js []byte) gmsl.PDU {
	ev, err := impl.NewEventFromTrustedJSON(js, false)
	if err != nil {
		panic(fmt.Sprintf("x07: cannot parse own event: %v", err))
	}
	return ev
}

func noSignatures(js []byte) []byte {
	out, err := sjson.SetRawBytes(js, "signatures", []byte(`{}`))
	if err != nil {
		panic(err)
	}
	return out
}

// rehash recomputes hashes.sha256 of an event whose fields were edited
func rehash(js []byte) []byte {
	var m map[string]json.RawMessage
	if err := json.Unmarshal(js, &m); err != nil {
		panic(err)
	}
	for _, k := range []string{"unsigned", "signatures", "hashes", "age_ts", "outlier", "destinations"} {
		delete(m, k)
	}
	b, err := json.Marshal(m)
	if err != nil {
		panic(err)
	}
	c, err := gmsl.CanonicalJSON(b)
	if err != nil {
		panic(err)
	}
	h := sha256.Sum256(c)
	out, err := sjson.SetBytes(js, "hashes", map[string]string{"sha256": base64.RawStdEncoding.EncodeToString(h[:])})
	if err != nil {
		panic(err)
	}
	return out
}

func signR(impl gmsl.IRoomVersion, js []byte) []byte {
	return mustTrusted(impl, js).Sign(string(srvR.name), srvR.keyID, srvR.priv).JSON()
}

const otherDisplayname = "x07 other content"

// answerEvent: the "event" of R's send_join answer for a scripted behaviour
func (r *run) answerEvent(kind string, sentEv gmsl.PDU) []byte {
	w := r.w
	impl, err := gmsl.GetRoomVersion(r.jver)
	if err != nil {
		impl = w.impl
	}
	sent := sentEv.JSON()
	js := r.jSigner()
	now := time.Now()
	switch kind {
	case "noevent":
		return nil
	case "honest": // the scripted countersigning (J was led to another room version than the room's)
		return signR(impl, sent)
	case "echo":
		return sent
	case "strip_sig":
		out, err := sjson.DeleteBytes(sent, "signatures."+escapeKey(string(js.name)))
		if err != nil {
			panic(err)
		}
		return signR(impl, out)
	case "corrupt_sig":
		ev := mustTrusted(impl, sent).Sign(string(js.name), js.keyID, srvJ.wrong)
		return signR(impl, ev.JSON())
	case "redacted":
		// the countersigned event with its content edited: the content hash no longer matches, the parser keeps the
		// redacted form - same event ID (format 1: same event_id), J's signature still verifies
		out := signR(impl, sent)
		out, err := sjson.SetBytes(out, "content.displayname", otherDisplayname)
		if err != nil {
			panic(err)
		}
		return out
	case "same_id":
		// room versions 1 / 2: another event under the event ID of J's event
		p := protoOf(sentEv)
		p.Content = setContent(p.Content, "displayname", otherDisplayname)
		ev := w.buildProto(impl, p, now, srvR)
		out, err := sjson.SetBytes(noSignatures(ev.JSON()), "event_id", sentEv.EventID())
		if err != nil {
			panic(err)
		}
		return signR(impl, rehash(out))
	case "other_content_unsigned":
		p := protoOf(sentEv)
		p.Content = setContent(p.Content, "displayname", otherDisplayname)
		return noSignatures(w.buildProto(impl, p, now, srvR).JSON())
	case "other_content_rsigned":
		p := protoOf(sentEv)
		p.Content = setContent(p.Content, "displayname", otherDisplayname)
		return w.buildProto(impl, p, now, srvR).JSON()
	case "older_join":
		// a genuine join of the same user that J signed earlier (same auth events, an older place in the room)
		p := protoOf(sentEv)
		p.Content = setContent(p.Content, "displayname", "x07 older join")
		p.PrevEvents = []string{w.pl.EventID()}
		p.Depth = w.pl.Depth() + 1
		ev := w.buildProto(impl, p, t0.Add(24*time.Hour), js)
		return signR(impl, ev.JSON())
	case "other_refs":
		p := protoOf(sentEv)
		p.PrevEvents = []string{w.pl.EventID()}
		p.Depth = w.pl.Depth() + 1
		return w.buildProto(impl, p, now, srvR).JSON()
	case "other_room":
		p := protoOf(sentEv)
		p.RoomID = w.other
		return w.buildProto(impl, p, now, srvR).JSON()
	case "other_user":
		// a genuine join of another user of J
		p := protoOf(sentEv)
		p.SenderID, p.StateKey = w.sid(userW), strp(w.sid(userW))
		signer := srvJ
		if w.pseudo {
			p.Content = setContent(p.Content, "mxid_mapping", mapping(userW))
			signer = pseudoSigner(userW)
		}
		return signR(impl, w.buildProto(impl, p, now, signer).JSON())
	case "other_mship":
		p := protoOf(sentEv)
		p.Content = []byte(`{"membership":"leave"}`)
		return w.buildProto(impl, p, now, srvR).JSON()
	case "not_member":
		p := protoOf(sentEv)
		p.Type, p.StateKey, p.SenderID = "m.room.topic", strp(""), w.sid(userC)
		p.Content = []byte(`{"topic":"x07"}`)
		return w.buildProto(impl, p, now, srvR).JSON()
	case "unparsable":
		return []byte(`{"type":"m.room.member","content":"x07","state_key":5}`)
	}
	panic("x07: unknown answer behaviour " + kind)
}

func indexOf(list []gmsl.PDU, id string) int {
	for i, e := range list {
		if e.EventID() == id {
			return i
		}
	}
	return -1
}

// corruptSig re-signs the event under the name of its signer with another key: the signature no longer verifies
func (w *world) corruptSig(ev gmsl.PDU, sender string) gmsl.PDU {
	s := w.signerOf(sender)
	wrong := s.wrong
	if w.pseudo {
		seed := sha256.Sum256([]byte("x07-wrong-roomkey-" + sender))
		wrong = ed25519.NewKeyFromSeed(seed[:])
	}
	return ev.Sign(string(s.name), s.keyID, wrong)
}

// stateLists: "state" and "auth_chain" of the answer under the behaviour st
func (r *run) stateLists() (state, chain []gmsl.PDU) {
	w := r.w
	state, chain = w.state(), w.chain()
	replaceBoth := func(id string, with gmsl.PDU) {
		if i := indexOf(state, id); i >= 0 {
			state[i] = with
		}
		if i := indexOf(chain, id); i >= 0 {
			chain[i] = with
		}
	}
	dropBoth := func(id string) {
		if i := indexOf(state, id); i >= 0 {
			state = append(state[:i:i], state[i+1:]...)
		}
		if i := indexOf(chain, id); i >= 0 {
			chain = append(chain[:i:i], chain[i+1:]...)
		}
	}
	fakeCreate := func(version string) gmsl.PDU {
		cc := map[string]interface{}{"room_version": version}
		room := w.room
		if domainless(string(w.ver)) {
			room = ""
		} else {
			cc["creator"] = userC
		}
		return w.build(room, spec.MRoomCreate, strp(""), userC, cc, []string{}, []string{}, 1, t0.Add(time.Second), nil, nil)
	}
	switch r.sc.St {
	case "ok":
	case "nocreate":
		dropBoth(w.create.EventID())
	case "create_unknownver":
		replaceBoth(w.create.EventID(), fakeCreate(unknownVer))
	case "create_otherver":
		v := "9"
		if string(w.ver) == "9" {
			v = "10"
		}
		replaceBoth(w.create.EventID(), fakeCreate(v))
	case "banned":
		ban := w.build(w.room, spec.MRoomMember, strp(userU), userC, member("ban"), w.authIDs(w.create, w.pl, w.cjoin, w.umem),
			[]string{w.last}, w.depth+1, t0.Add(2*time.Hour), nil, nil)
		if w.umem != nil {
			if i := indexOf(state, w.umem.EventID()); i >= 0 {
				state[i] = ban
			}
		} else {
			state = append(state, ban)
		}
		chain = append(chain, ban)
	case "badsig_state":
		replaceBoth(w.create.EventID(), w.corruptSig(w.create, userC))
	case "badsig_chain":
		replaceBoth(w.pl0.EventID(), w.corruptSig(w.pl0, userC))
	default:
		panic("x07: unknown state behaviour " + r.sc.St)
	}
	return state, chain
}

// SendJoin: PUT /_matrix/federation/v2/send_join
func (r *run) SendJoin(ctx context.Context, origin, s spec.ServerName, event gmsl.PDU) (gmsl.SendJoinResponse, error) {
	r.logStep("send_join")
	r.mu.Lock()
	r.sent = append(r.sent, sentMsg{origin: string(origin), dest: string(s), event: append([]byte(nil), event.JSON()...)})
	r.mu.Unlock()
	wire := fclient.RespSendJoin{Origin: srvR.name}
	switch {
	case r.sc.Ans == "neterr":
		r.ans = "error"
		return nil, netError{"connection reset"}
	case r.sc.Ans == "honest" && r.sc.Tpl != "v_other":
		out, err := r.honestSendJoin(origin, event)
		if err != nil {
			r.ans = "refused"
			return nil, netError{"remote refused send_join: " + err.Error()}
		}
		wire.Event = out.JSON()
	default:
		wire.Event = r.answerEvent(r.sc.Ans, event)
	}
	r.ans = "answer"
	r.answerEv = wire.Event
	state, chain := r.stateLists()
	for _, e := range state {
		wire.StateEvents = append(wire.StateEvents, e.JSON())
	}
	for _, e := range chain {
		wire.AuthEvents = append(wire.AuthEvents, e.JSON())
	}
	b, err := json.Marshal(wire)
	if err != nil {
		panic(err)
	}
	var got fclient.RespSendJoin
	if err := json.Unmarshal(b, &got); err != nil {
		panic(err)
	}
	return &got, nil
}

// --------------------------------------------------------------------------------------------------- the call

type outcome struct {
	resp *gmsl.PerformJoinResponse
	ferr *gmsl.FederationError
}

func (r *run) perform() outcome {
	resp, ferr := gmsl.PerformJoin(context.Background(), r, r.input())
	return outcome{resp, ferr}
}
