// Command x07 binds spec/JoinFlow.tla (growth specification X07: the join handshake seen from the joining server)
// to the real gomatrixserverlib.PerformJoin, with the resident server played by the real HandleMakeJoin /
// HandleSendJoin (honest behaviour) or by a scripted misbehaving server.
//
//	x07 x07 -in records.ndjson     replay JoinFlow_gen behaviours: one room per scenario built from real, signed events
//	                               in the scenario's room version, real ed25519 keys for both servers (and room keys
//	                               in pseudo-ID rooms), a real KeyRing over a scripted key database; ONE real
//	                               PerformJoin call per record; outcome and error class, both requests, the order of
//	                               requests and verification, the returned event and state snapshot compared
//	x07 probe -in scenarios.ndjson  run scenarios ({"sc": {...}}) and print what was observed (no comparison)
package main

import (
	"encoding/json"
	"io"

	"github.com/sirupsen/logrus"

	"verifharness/hx"
)

func main() {
	logrus.SetOutput(io.Discard) // CheckStateResponse / storeMXIDMappings log every refusal
	hx.Register("x07", "replay JoinFlow_gen.tla behaviours against PerformJoin <-> HandleMakeJoin / HandleSendJoin", func(a *hx.Args) error {
		return hx.ReplayAll(a, func(i int, raw json.RawMessage) hx.Result { return replay(raw) })
	})
	hx.Register("probe", "run scenarios and print the observation", func(a *hx.Args) error {
		return hx.ReplayAll(a, func(i int, raw json.RawMessage) hx.Result {
			var rec struct {
				Sc Sc `json:"sc"`
			}
			if err := json.Unmarshal(raw, &rec); err != nil {
				panic(err)
			}
			_, o := observe(rec.Sc)
			return hx.Result{OK: true, NT: rec.Sc.Tpl + "/" + rec.Sc.Ans + "/" + rec.Sc.St, Extra: o}
		})
	})
	hx.Main()
}
