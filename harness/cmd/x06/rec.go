package main

import (
	"fmt"
	"sort"
	"strings"
)

// ev is one event in the abstract vocabulary of Room.tla.
type ev struct {
	ID         int            `json:"id"`
	Type       string         `json:"type"`
	Sender     string         `json:"sender"`
	SKey       string         `json:"skey"`
	Membership string         `json:"membership"`
	PLU        map[string]int `json:"plu"`
	JR         string         `json:"jr"`
	Prev       []int          `json:"prev"`
	Auth       []int          `json:"auth"`
	Depth      int64          `json:"depth"`
	TS         int64          `json:"ts"`
	IDR        int            `json:"idr"`
	SHA        int            `json:"sha"`
	Home       int            `json:"home"` // the sender's homeserver
}

// out is what a server holds after a step about the event it processed.
type out struct {
	S    int    `json:"s"`
	E    int    `json:"e"`
	V    string `json:"v"`
	SA   []int  `json:"sa"`
	Tips []int  `json:"tips"`
	Cur  []int  `json:"cur"`
}

type step struct {
	A   string `json:"a"` // create send stale join deliver gap
	S   int    `json:"s"`
	E   int    `json:"e"`
	Via int    `json:"via"`
	Res []out  `json:"res"`
}

// held is what a server holds at the end of a behaviour, per event number.
type held struct {
	KN   []int    `json:"kn"`
	HS   []int    `json:"hs"`
	VD   []string `json:"vd"`
	SA   [][]int  `json:"sa"`
	Tips []int    `json:"tips"`
	Cur  []int    `json:"cur"`
}

// rec is one Fed_gen behaviour.
type rec struct {
	Ver    string `json:"ver"`
	N      int    `json:"n"`
	Byz    []int  `json:"byz"`
	Events []ev   `json:"events"`
	Steps  []step `json:"steps"`
	Final  []held `json:"final"`
	Bad    []int  `json:"bad"`
	Stale  []int  `json:"stale"`
}

func (r *rec) ev(id int) *ev { return &r.Events[id-1] }

func kindOf(e *ev) string {
	if e.Type == "member" {
		if e.Sender == e.SKey {
			return "member-self-" + e.Membership
		}
		return "member-other-" + e.Membership
	}
	return e.Type
}

func describeEvent(e *ev) string {
	s := fmt.Sprintf("%d:%s(%s", e.ID, e.Type, e.Sender)
	if e.Type == "member" {
		s += "->" + e.SKey + " " + e.Membership
	}
	if e.Type == "pl" {
		var us []string
		for u, rk := range e.PLU {
			if rk >= 0 && rk < len(roomLadder) {
				us = append(us, fmt.Sprintf("%s=%d", u, roomLadder[rk]))
			}
		}
		sort.Strings(us)
		s += " " + strings.Join(us, ",")
	}
	if e.Type == "jr" {
		s += " " + e.JR
	}
	return s + fmt.Sprintf(") prev=%v auth=%v ts=%d", e.Prev, e.Auth, e.TS)
}

func describeEvents(es []ev, from int) string {
	var parts []string
	for i := range es {
		if es[i].ID >= from {
			parts = append(parts, describeEvent(&es[i]))
		}
	}
	return strings.Join(parts, "; ")
}

func sortedCopy(x []int) []int {
	out := append([]int{}, x...)
	sort.Ints(out)
	return out
}

func sameInts(a, b []int) bool {
	if len(a) != len(b) {
		return false
	}
	for i := range a {
		if a[i] != b[i] {
			return false
		}
	}
	return true
}

func hasInt(xs []int, x int) bool {
	for _, y := range xs {
		if y == x {
			return true
		}
	}
	return false
}
