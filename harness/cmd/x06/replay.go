package main

// x06: spec -> code replay of Fed_gen.tla behaviours.  A record is a sequence of Create / Join / Send / Deliver /
// DeliverGap steps over a room of 2-3 homeservers, each step with what the acting servers must hold afterwards.
// Every step is executed by real servers (server.go); after every step the acting servers are compared with the
// model: the verdict on the event, the state after it, the forward extremities, the current room state (as sets of
// model event numbers).  At the end every server is compared with the model's final picture, Convergence is checked
// directly on the real servers, and every honest server's deliveries are repeated in another order on a second
// server, which must end up holding the same.
// The replay of a behaviour stops at its first disagreement (what follows depends on what the servers hold).

import (
	"encoding/json"
	"errors"
	"fmt"
	"hash/fnv"
	"math/rand"
	"sort"
	"strings"
	"sync"

	gmsl "github.com/matrix-org/gomatrixserverlib"

	"verifharness/hx"
)

type disagreement struct {
	key, what string
	want, got interface{}
}

func (d *disagreement) Error() string { return d.what }

func disagree(key string, want, got interface{}, format string, a ...interface{}) *disagreement {
	return &disagreement{key: "X06/" + key, what: fmt.Sprintf(format, a...), want: want, got: got}
}

const prefixLen = 5 // create, creator's join, power levels, join rules, alice's join

var prefixCache sync.Map

type run struct {
	r      *rec
	w      *world
	rng    *rand.Rand
	stepNo int
	kinds  []string
}

func replayOne(i int, raw json.RawMessage, seed int64, mode string) hx.Result {
	var r rec
	if err := json.Unmarshal(raw, &r); err != nil {
		panic(fmt.Sprintf("x06: undecodable record: %v", err))
	}
	h := fnv.New64a()
	h.Write(raw)
	x := &run{r: &r, rng: rand.New(rand.NewSource(seed*1000003 + int64(h.Sum64()>>1)))}
	// the steps before the first send (creation prefix, joins, the deliveries between them) are the same in
	// thousands of records: they are replayed (and compared) once per process and distinct prefix, the world after
	// them is copied
	lead, maxE := 0, 0
	for lead < len(r.Steps) && (r.Steps[lead].A == "create" || r.Steps[lead].A == "join" || r.Steps[lead].A == "deliver") {
		if r.Steps[lead].E > maxE {
			maxE = r.Steps[lead].E
		}
		lead++
	}
	pj, _ := json.Marshal(r.Steps[:lead])
	ej, _ := json.Marshal(r.Events[:maxE])
	pkey := fmt.Sprintf("%s|%d|%v|%s|%s|%s", r.Ver, r.N, r.Byz, mode, pj, ej)
	var d *disagreement
	if snap, ok := prefixCache.Load(pkey); ok {
		x.w = snap.(*world).clone()
	} else {
		x.w = newWorld(r.Ver, r.N, r.Byz, mode)
		for k := 0; k < lead && d == nil; k++ {
			x.stepNo = k
			d = x.step(&r.Steps[k])
		}
		if d == nil && lead >= prefixLen {
			prefixCache.Store(pkey, x.w.clone())
		}
	}
	for k := lead; k < len(r.Steps) && d == nil; k++ {
		x.stepNo = k
		d = x.step(&r.Steps[k])
	}
	if d == nil {
		d = x.finish()
	}
	nt := x.class()
	if d != nil {
		if mode != "" {
			// the same scenario judged through another entry point of the library is another finding
			d.key = "X06/" + mode + strings.TrimPrefix(d.key, "X06")
		}
		return hx.Result{I: i, OK: false, NT: nt, Key: d.key, Want: d.want, Got: d.got,
			What: fmt.Sprintf("%s\nroom version %s, %d servers%s; events beyond the creation prefix: %s\nsteps: %s",
				d.what, r.Ver, r.N, x.byzNote(), describeEvents(r.Events, 6), x.describeSteps())}
	}
	return hx.Result{I: i, OK: true, NT: nt}
}

func (x *run) byzNote() string {
	if len(x.r.Byz) == 0 {
		return ""
	}
	return fmt.Sprintf(" (byzantine: %v)", x.r.Byz)
}

func (x *run) describeSteps() string {
	var parts []string
	for k, st := range x.r.Steps {
		mark := ""
		if k == x.stepNo {
			mark = "*"
		}
		switch st.A {
		case "join":
			parts = append(parts, fmt.Sprintf("%sjoin(hs%d via hs%d, %d)", mark, st.S, st.Via, st.E))
		default:
			parts = append(parts, fmt.Sprintf("%s%s(hs%d, %d)", mark, st.A, st.S, st.E))
		}
	}
	return strings.Join(parts, " ")
}

// class: the nontrivial class of a behaviour: version, servers, the last step and the kind of its event, the verdicts
// of that step, whether real state resolution took part, the shape of the fork the event sits on
func (x *run) class() string {
	r := x.r
	last := r.Steps[len(r.Steps)-1]
	var vs []string
	for _, o := range last.Res {
		vs = append(vs, o.V)
	}
	conc := 0
	e := r.ev(last.E)
	if len(e.Prev) > 1 {
		conc = len(e.Prev)
	}
	return fmt.Sprintf("%s|n=%d|byz=%v|%s:%s|%s|prevs=%d|tips=%d|resolved=%v|bad=%d|stale=%d", r.Ver, r.N, r.Byz, last.A, kindOf(e),
		strings.Join(vs, ","), conc, len(last.Res[len(last.Res)-1].Tips), x.w.resolutions > 0, len(r.Bad), len(r.Stale))
}

func (x *run) step(st *step) *disagreement {
	w, r := x.w, x.r
	e := r.ev(st.E)
	switch st.A {
	case "create", "send", "stale":
		s := w.servers[st.S]
		scripted := s.byz && (hasInt(r.Bad, e.ID) || hasInt(r.Stale, e.ID))
		p, err := s.newEvent(e, s.name, scripted)
		if err != nil {
			return disagree("send/build/"+kindOf(e), nil, err.Error(), "hs%d cannot build event %s: %v", st.S, describeEvent(e), err)
		}
		if d := x.checkBuilt(st, e, p, s); d != nil {
			return d
		}
		w.publish(e.ID, p)
		// may the server send it: the library's Allowed over the server's current state
		allowedErr := s.sendAllowed(p)
		wantAllowed := !(hasInt(r.Bad, e.ID) || hasInt(r.Stale, e.ID))
		if (allowedErr == nil) != wantAllowed {
			return disagree(fmt.Sprintf("send/allowed-by-own-state/%s/want=%v", kindOf(e), wantAllowed), wantAllowed, allowedErr == nil,
				"hs%d builds %s on its current state %v: the specification's rules say allowed=%v, the real Allowed over that state says %v",
				st.S, describeEvent(e), w.nums(s.cur.ids()), wantAllowed, allowedErr)
		}
		pr := s.process(p, true)
		if st.A == "create" && e.ID == prefixLen {
			defer func() { w.atJoin[1] = s.clone() }()
		}
		return x.compare(st, &st.Res[0], s, pr, true)
	case "join":
		via, s := w.servers[st.Via], w.servers[st.S]
		// make_join: the resident server drafts the event on its extremities and state; the joining server signs it
		p, err := via.newEvent(e, s.name, false)
		if err != nil {
			return disagree("join/build", nil, err.Error(), "hs%d cannot draft the join event %s: %v", st.Via, describeEvent(e), err)
		}
		if d := x.checkBuilt(st, e, p, via); d != nil {
			return d
		}
		w.publish(e.ID, p)
		// send_join: the resident server processes the event like any other it receives ...
		before := via.cur
		got, pr, err := via.receive(w.wire[e.ID])
		if err != nil {
			return x.receiveFailure(st, e, via, err)
		}
		if d := x.compare(st, &st.Res[0], via, pr, true); d != nil {
			return d
		}
		// ... and answers with the state before it and the auth chain; the joining server checks the answer
		resp := via.answerSendJoin(before, got)
		if err := s.acceptSendJoin(resp, p); err != nil {
			return disagree("join/handover/refused", "accepted", err.Error(),
				"hs%d refuses hs%d's answer to send_join for %s (state %v): %v", st.S, st.Via, describeEvent(e), w.nums(before.ids()), err)
		}
		w.atJoin[st.S] = s.clone()
		return x.compare(st, &st.Res[1], s, processed{v: vAccepted}, true)
	case "deliver":
		s := w.servers[st.S]
		_, pr, err := s.receive(w.wire[e.ID])
		if err != nil {
			return x.receiveFailure(st, e, s, err)
		}
		return x.compare(st, &st.Res[0], s, pr, true)
	case "gap":
		s := w.servers[st.S]
		// get_missing_events: everything between what the server has processed and the event, from the network
		missing := map[int]bool{st.E: true}
		var walk func(n int)
		walk = func(n int) {
			for _, p := range r.ev(n).Prev {
				if _, has := s.sa[w.ids[p]]; !has && !missing[p] {
					missing[p] = true
					walk(p)
				}
			}
		}
		walk(st.E)
		var nums []int
		for n := range missing {
			nums = append(nums, n)
		}
		sort.Ints(nums)
		x.rng.Shuffle(len(nums), func(a, b int) { nums[a], nums[b] = nums[b], nums[a] })
		var batch []gmsl.PDU
		for _, n := range nums {
			p, err := w.impl.NewEventFromUntrustedJSON(w.wire[n])
			if err != nil {
				return x.receiveFailure(st, r.ev(n), s, err)
			}
			batch = append(batch, p)
		}
		// the library orders the batch: every event after its prev events
		ordered := gmsl.ReverseTopologicalOrdering(batch, gmsl.TopologicalOrderByPrevEvents)
		if len(ordered) != len(batch) {
			return disagree("gap/ordering/lost-events", len(batch), len(ordered), "ReverseTopologicalOrdering returned %d of %d events", len(ordered), len(batch))
		}
		want := map[int]*out{}
		for k := range st.Res {
			want[st.Res[k].E] = &st.Res[k]
		}
		for k, p := range ordered {
			n := w.byID[p.EventID()]
			o := want[n]
			if o == nil {
				return disagree("gap/fetched-set", sortedCopy(keysOf(want)), nums, "hs%d fetched %v for event %d, the specification says %v", st.S, nums, st.E, keysOf(want))
			}
			_, pr, err := s.receive(w.wire[n])
			if err != nil {
				return x.receiveFailure(st, r.ev(n), s, err)
			}
			// extremities and current state are compared once the whole batch is in
			if d := x.compare(st, o, s, pr, k == len(ordered)-1); d != nil {
				return d
			}
		}
		return nil
	}
	panic("x06: unknown step " + st.A)
}

func keysOf(m map[int]*out) []int {
	var ks []int
	for k := range m {
		ks = append(ks, k)
	}
	sort.Ints(ks)
	return ks
}

func (x *run) receiveFailure(st *step, e *ev, s *server, err error) *disagreement {
	aspect := "parse"
	if errors.Is(err, errSig) {
		aspect = "signature"
	}
	return disagree(fmt.Sprintf("%s/%s/%s", st.A, aspect, kindOf(e)), "received", err.Error(), "hs%d receiving %s: %v", s.idx, describeEvent(e), err)
}

// checkBuilt: the event the server built sits where the model's event sits: same prev events, same auth events
func (x *run) checkBuilt(st *step, e *ev, p gmsl.PDU, s *server) *disagreement {
	w := x.w
	// (before the event is published its own number is unknown: prev and auth events are all older)
	prev := w.nums(p.PrevEventIDs())
	if !sameInts(prev, sortedCopy(e.Prev)) {
		return disagree(fmt.Sprintf("%s/prev-events/%s", st.A, kindOf(e)), sortedCopy(e.Prev), prev,
			"hs%d builds %s on its extremities %v, the specification's server on %v", s.idx, describeEvent(e), prev, sortedCopy(e.Prev))
	}
	auth := w.nums(p.AuthEventIDs())
	if !sameInts(auth, sortedCopy(e.Auth)) {
		return disagree(fmt.Sprintf("%s/auth-selection/%s", st.A, kindOf(e)), sortedCopy(e.Auth), auth,
			"hs%d builds %s from its state %v: the library (StateNeededForProtoEvent + AuthEventReferences) cites %v, the specification %v",
			s.idx, describeEvent(e), w.nums(s.cur.ids()), auth, sortedCopy(e.Auth))
	}
	if p.Depth() != e.Depth {
		return disagree(fmt.Sprintf("%s/depth/%s", st.A, kindOf(e)), e.Depth, p.Depth(), "depth %d, specification %d", p.Depth(), e.Depth)
	}
	return nil
}

// compare: what server s holds about event o.E against the model
func (x *run) compare(st *step, o *out, s *server, pr processed, withFrontier bool) *disagreement {
	w := x.w
	e := x.r.ev(o.E)
	id := w.ids[o.E]
	where := fmt.Sprintf("after %s(hs%d, %d)", st.A, st.S, st.E)
	if len(s.problems) > 0 {
		return disagree(fmt.Sprintf("%s/malformed-state/%s", st.A, kindOf(e)), nil, s.problems, "hs%d %s: %s", s.idx, where, strings.Join(s.problems, "; "))
	}
	if len(s.asked) > 0 {
		return disagree(fmt.Sprintf("%s/unknown-auth-event-needed/%s", st.A, kindOf(e)), []int{}, w.nums(s.asked),
			"hs%d %s: the library asked the server's event provider for events the server does not hold: %v (the specification: every auth event of a processed event is known)",
			s.idx, where, w.nums(s.asked))
	}
	if got := s.vd[id]; got != o.V {
		return disagree(fmt.Sprintf("%s/verdict/%s/want=%s,got=%s", st.A, kindOf(e), o.V, got), o.V, got,
			"hs%d %s: verdict on %s is %q (%s), the specification says %q; state before it as the server holds it: %v",
			s.idx, where, describeEvent(e), got, pr.detail, o.V, x.stateBeforeNums(s, e))
	}
	if got := w.nums(s.sa[id].ids()); !sameInts(got, sortedCopy(o.SA)) {
		return disagree(fmt.Sprintf("%s/state-after/%s/%s", st.A, kindOf(e), x.forkShape(e)), sortedCopy(o.SA), got,
			"hs%d %s: state after %s is %v, the specification says %v (verdict %s)", s.idx, where, describeEvent(e), got, sortedCopy(o.SA), o.V)
	}
	if !withFrontier {
		return nil
	}
	if got := w.nums(s.tips); !sameInts(got, sortedCopy(o.Tips)) {
		return disagree(fmt.Sprintf("%s/extremities/%s", st.A, kindOf(e)), sortedCopy(o.Tips), got,
			"hs%d %s: forward extremities %v, the specification says %v", s.idx, where, got, sortedCopy(o.Tips))
	}
	if got := w.nums(s.cur.ids()); !sameInts(got, sortedCopy(o.Cur)) {
		return disagree(fmt.Sprintf("%s/current-state/%s/%s", st.A, kindOf(e), x.tipShape(o.Tips)), sortedCopy(o.Cur), got,
			"hs%d %s: current room state (resolution over the extremities %v) is %v, the specification says %v", s.idx, where, sortedCopy(o.Tips), got, sortedCopy(o.Cur))
	}
	return nil
}

func (x *run) stateBeforeNums(s *server, e *ev) interface{} {
	var sets [][]int
	for _, p := range e.Prev {
		if st, ok := s.sa[x.w.ids[p]]; ok {
			sets = append(sets, x.w.nums(st.ids()))
		}
	}
	return sets
}

// forkShape / tipShape: the kinds of the events at the fork (canonical part of a key)
func (x *run) forkShape(e *ev) string { return x.tipShape(e.Prev) }

func (x *run) tipShape(tips []int) string {
	if len(tips) < 2 {
		return "linear"
	}
	var ks []string
	for _, t := range tips {
		ks = append(ks, kindOf(x.r.ev(t)))
	}
	sort.Strings(ks)
	return "fork:" + strings.Join(ks, "+")
}

// finish: the final picture, Convergence on the real servers, and the re-ordering check
func (x *run) finish() *disagreement {
	w, r := x.w, x.r
	x.stepNo = len(r.Steps)
	honest := func(i int) bool { return !hasInt(r.Byz, i) }
	for i := 1; i <= r.N; i++ {
		s := w.servers[i]
		f := r.Final[i-1]
		var kn, hs []int
		for id := range s.store {
			kn = append(kn, w.byID[id])
		}
		for id := range s.sa {
			hs = append(hs, w.byID[id])
		}
		sort.Ints(kn)
		sort.Ints(hs)
		if !sameInts(kn, sortedCopy(f.KN)) {
			return disagree("final/known-events", sortedCopy(f.KN), kn, "hs%d holds events %v at the end, the specification says %v", i, kn, sortedCopy(f.KN))
		}
		if !sameInts(hs, sortedCopy(f.HS)) {
			return disagree("final/events-with-state", sortedCopy(f.HS), hs, "hs%d has a state after events %v, the specification says %v", i, hs, sortedCopy(f.HS))
		}
		for _, n := range kn {
			if got := s.vd[w.ids[n]]; got != f.VD[n-1] {
				return disagree(fmt.Sprintf("final/verdict/%s/want=%s,got=%s", kindOf(r.ev(n)), f.VD[n-1], got), f.VD[n-1], got,
					"hs%d's verdict on event %d at the end is %q, the specification says %q", i, n, got, f.VD[n-1])
			}
		}
		for _, n := range hs {
			if got := w.nums(s.sa[w.ids[n]].ids()); !sameInts(got, sortedCopy(f.SA[n-1])) {
				return disagree("final/state-after/"+kindOf(r.ev(n)), sortedCopy(f.SA[n-1]), got, "hs%d's state after event %d at the end is %v, the specification says %v", i, n, got, sortedCopy(f.SA[n-1]))
			}
		}
		if got := w.nums(s.tips); !sameInts(got, sortedCopy(f.Tips)) {
			return disagree("final/extremities", sortedCopy(f.Tips), got, "hs%d's extremities at the end are %v, the specification says %v", i, got, sortedCopy(f.Tips))
		}
		if got := w.nums(s.cur.ids()); !sameInts(got, sortedCopy(f.Cur)) {
			return disagree("final/current-state/"+x.tipShape(f.Tips), sortedCopy(f.Cur), got, "hs%d's current state at the end is %v, the specification says %v", i, got, sortedCopy(f.Cur))
		}
	}
	// Convergence, directly on the real servers
	for i := 1; i <= r.N; i++ {
		for j := i + 1; j <= r.N; j++ {
			if !honest(i) || !honest(j) {
				continue
			}
			if d := converged(w, w.servers[i], w.servers[j]); d != nil {
				return d
			}
		}
	}
	// Delivery-order independence, directly on the real code: every honest server's deliveries again, in another
	// order, on a second server that starts from what the first held when it entered the room
	for i := 1; i <= r.N; i++ {
		if honest(i) && w.servers[i].inRoom() {
			if d := x.reorder(w.servers[i]); d != nil {
				return d
			}
		}
	}
	return nil
}

func converged(w *world, a, b *server) *disagreement {
	for id, va := range a.vd {
		if vb, ok := b.vd[id]; ok && va != vb {
			n := w.byID[id]
			return disagree("convergence/verdict", va, vb, "hs%d and hs%d both know event %d: verdicts %q and %q", a.idx, b.idx, n, va, vb)
		}
	}
	for id, sa := range a.sa {
		if sb, ok := b.sa[id]; ok && !sameState(sa, sb) {
			n := w.byID[id]
			return disagree("convergence/state-after", w.nums(sa.ids()), w.nums(sb.ids()), "hs%d and hs%d both processed event %d: states after it %v and %v",
				a.idx, b.idx, n, w.nums(sa.ids()), w.nums(sb.ids()))
		}
	}
	ta, tb := w.nums(a.tips), w.nums(b.tips)
	if len(ta) > 0 && sameInts(ta, tb) && !sameState(a.cur, b.cur) {
		return disagree("convergence/current-state", w.nums(a.cur.ids()), w.nums(b.cur.ids()), "hs%d and hs%d have the same extremities %v and current states %v and %v",
			a.idx, b.idx, ta, w.nums(a.cur.ids()), w.nums(b.cur.ids()))
	}
	return nil
}

// reorder: a random other order of s's deliveries in which every event still comes after its prev events
func (x *run) reorder(s *server) *disagreement {
	w := x.w
	var twin *server
	if j := w.atJoin[s.idx]; j != nil {
		twin = j.clone()
	} else {
		return nil
	}
	var todo []int
	for _, id := range s.order {
		if _, has := twin.store[id]; !has {
			todo = append(todo, w.byID[id])
		}
	}
	if len(todo) < 2 {
		return nil
	}
	done := map[int]bool{}
	var seq []int
	for len(todo) > 0 {
		var ready []int
		for k, n := range todo {
			ok := true
			for _, p := range x.r.ev(n).Prev {
				if _, has := twin.sa[w.ids[p]]; !has && !done[p] {
					ok = false
				}
			}
			if ok {
				ready = append(ready, k)
			}
		}
		if len(ready) == 0 {
			return nil // (cannot happen: s itself processed them in some such order)
		}
		k := ready[x.rng.Intn(len(ready))]
		n := todo[k]
		todo = append(todo[:k], todo[k+1:]...)
		done[n] = true
		seq = append(seq, n)
		if _, _, err := twin.receive(w.wire[n]); err != nil {
			return disagree("reorder/receive", nil, err.Error(), "a second hs%d receiving event %d in the order %v: %v", s.idx, n, seq, err)
		}
	}
	for id, v := range s.vd {
		if tv := twin.vd[id]; tv != v {
			return disagree("reorder/verdict/"+kindOf(x.r.ev(w.byID[id])), v, tv, "hs%d processed its events in the order %v and holds verdict %q on event %d; a second server given the same events in the order %v holds %q",
				s.idx, w.nums(s.order), v, w.byID[id], seq, tv)
		}
	}
	for id, st := range s.sa {
		if ts, ok := twin.sa[id]; !ok || !sameState(st, ts) {
			return disagree("reorder/state-after/"+kindOf(x.r.ev(w.byID[id])), w.nums(st.ids()), w.nums(ts.ids()),
				"hs%d holds state %v after event %d; a second server given the same events in the order %v holds %v", s.idx, w.nums(st.ids()), w.byID[id], seq, w.nums(ts.ids()))
		}
	}
	if !sameInts(w.nums(s.tips), w.nums(twin.tips)) || !sameState(s.cur, twin.cur) {
		return disagree("reorder/current-state", w.nums(s.cur.ids()), w.nums(twin.cur.ids()), "hs%d ends with extremities %v and state %v; a second server given the same events in the order %v with %v and %v",
			s.idx, w.nums(s.tips), w.nums(s.cur.ids()), seq, w.nums(twin.tips), w.nums(twin.cur.ids()))
	}
	return nil
}
