package main

// One homeserver of the replicated room.  The struct is bookkeeping only (an event store, a verdict and a state
// per event, the forward extremities); EVERY DECISION is the library's:
//
//	which auth events a new event cites      EventBuilder.AddAuthEvents (StateNeededForProtoEvent +
//	                                         StateNeeded.AuthEventReferences) over the server's current state
//	may the server send it                   Allowed over the server's current state
//	is a received event well formed          RoomVersion.NewEventFromUntrustedJSON on the sender's bytes
//	is it signed by its sender's server      VerifyEventSignatures over a real KeyRing
//	step 4 (allowed by its auth events,      VerifyEventAuthChain, the event provider answering from the server's
//	        recursively)                     own store
//	state before the event                   ResolveConflictsNew over the states after its prev events, the
//	                                         rejected-event oracle answering from the server's own verdicts
//	step 5 (allowed by the state before it)  VerifyAuthRulesAtState, the state provider answering with that state
//	(-mode loader: parse, signatures, steps 4 and 5 in one EventsLoader.LoadAndVerify call)
//	what a joining server keeps              CheckSendJoinResponse
//	order of fetched missing events          ReverseTopologicalOrdering(TopologicalOrderByPrevEvents)
//
// Harness glue (no judgement about events): looking up the server's own verdict on the cited auth events ("an
// event that cites a rejected auth event is rejected" - the library has no store to look that up in), replacing
// one (type, state_key) entry of a state by an accepted event, walking prev / auth edges through the store
// (forward extremities, the auth chain handed to the resolver), 1 + max depth.

import (
	"context"
	"encoding/json"
	"errors"
	"fmt"
	"sort"

	gmsl "github.com/matrix-org/gomatrixserverlib"
	"github.com/matrix-org/gomatrixserverlib/spec"
)

const (
	vAccepted      = "accepted"
	vRejected      = "rejected"
	vStateRejected = "staterejected"
)

type state map[gmsl.StateKeyTuple]string // (type, state_key) -> event ID

func (st state) ids() []string {
	out := make([]string, 0, len(st))
	for _, id := range st {
		out = append(out, id)
	}
	sort.Strings(out)
	return out
}

func (st state) clone() state {
	out := make(state, len(st)+1)
	for k, v := range st {
		out[k] = v
	}
	return out
}

func sameState(a, b state) bool {
	if len(a) != len(b) {
		return false
	}
	for k, v := range a {
		if b[k] != v {
			return false
		}
	}
	return true
}

type server struct {
	w     *world
	idx   int
	name  string
	byz   bool
	store map[string]gmsl.PDU // the events this server holds, as it parsed them
	order []string            // ... in the order it got them
	vd    map[string]string   // its verdict per event
	sa    map[string]state    // the state after each event it processed itself
	tips  []string            // forward extremities, in the order they became one
	cur   state               // the current room state
	// observations
	asked       []string // event IDs the event provider was asked for that the server does not hold
	glueOnly    int      // events rejected only because the server had rejected a cited auth event (the chain check passed)
	resolutions int
	problems    []string // things that must not happen whatever the model says (two state events per key in a resolved state, ...)
}

func newServer(w *world, idx int, byz bool) *server {
	return &server{w: w, idx: idx, name: serverName(idx), byz: byz, store: map[string]gmsl.PDU{}, vd: map[string]string{},
		sa: map[string]state{}, cur: state{}}
}

func (s *server) inRoom() bool { return len(s.store) > 0 }

func tupleOf(p gmsl.PDU) gmsl.StateKeyTuple {
	return gmsl.StateKeyTuple{EventType: p.Type(), StateKey: *p.StateKey()}
}

func (s *server) pdus(ids []string) []gmsl.PDU {
	out := make([]gmsl.PDU, 0, len(ids))
	for _, id := range ids {
		if p := s.store[id]; p != nil {
			out = append(out, p)
		}
	}
	return out
}

// authProvider: the library's AuthEvents container filled with a state
func (s *server) authProvider(st state) *gmsl.AuthEvents {
	prov, err := gmsl.NewAuthEvents(s.pdus(st.ids()))
	if err != nil {
		panic(fmt.Sprintf("x06: NewAuthEvents: %v", err))
	}
	return prov
}

// provideEvents is the server's gomatrixserverlib.EventProvider: it answers from its own store.
func (s *server) provideEvents(roomVer gmsl.RoomVersion, eventIDs []string) ([]gmsl.PDU, error) {
	var out []gmsl.PDU
	for _, id := range eventIDs {
		if p := s.store[id]; p != nil {
			out = append(out, p)
		} else {
			s.asked = append(s.asked, id)
		}
	}
	return out, nil
}

func (s *server) isRejected(eventID string) bool {
	v, ok := s.vd[eventID]
	return ok && v != vAccepted
}

// authChain: the events reachable through auth_events from the given events (glue: a graph walk over the store)
func (s *server) authChain(from []string) []string {
	seen := map[string]bool{}
	var walk func(id string)
	walk = func(id string) {
		p := s.store[id]
		if p == nil {
			return
		}
		for _, a := range p.AuthEventIDs() {
			if !seen[a] {
				seen[a] = true
				walk(a)
			}
		}
	}
	for _, id := range from {
		walk(id)
	}
	out := make([]string, 0, len(seen))
	for _, id := range s.order { // arrival order: whatever order dependence there is gets a chance to show
		if seen[id] {
			out = append(out, id)
		}
	}
	return out
}

// resolve: the real state resolution over the given states, presented in the given order
func (s *server) resolve(sets []state) state {
	s.resolutions++
	s.w.resolutions++
	var lists [][]gmsl.PDU
	union := map[string]bool{}
	perKey := map[gmsl.StateKeyTuple]map[string]bool{}
	for _, st := range sets {
		ids := st.ids()
		// within a state: arrival order
		sort.Slice(ids, func(a, b int) bool { return s.pos(ids[a]) < s.pos(ids[b]) })
		lists = append(lists, s.pdus(ids))
		for k, id := range st {
			union[id] = true
			if perKey[k] == nil {
				perKey[k] = map[string]bool{}
			}
			perKey[k][id] = true
		}
	}
	var all []string
	for id := range union {
		all = append(all, id)
	}
	sort.Strings(all)
	var auth []gmsl.PDU
	if s.w.impl.StateResAlgorithm() == gmsl.StateResV1 {
		// the v1 resolver wants the unconflicted events of the types the auth rules read, one per key
		for k, ids := range perKey {
			if len(ids) != 1 {
				continue
			}
			switch k.EventType {
			case spec.MRoomCreate, spec.MRoomPowerLevels, spec.MRoomJoinRules, spec.MRoomMember:
				for id := range ids {
					auth = append(auth, s.store[id])
				}
			}
		}
		sort.Slice(auth, func(a, b int) bool { return s.pos(auth[a].EventID()) < s.pos(auth[b].EventID()) })
	} else {
		// "the entire set of auth_events for these events": the auth chain, and the state events themselves
		chain := s.authChain(all)
		inChain := map[string]bool{}
		for _, id := range chain {
			inChain[id] = true
		}
		auth = s.pdus(chain)
		for _, id := range all {
			if !inChain[id] {
				auth = append(auth, s.store[id])
			}
		}
	}
	res, err := gmsl.ResolveConflictsNew(s.w.ver, lists, auth, identityQuerier, s.isRejected)
	if err != nil {
		panic(fmt.Sprintf("x06: ResolveConflictsNew: %v", err))
	}
	out := state{}
	for _, p := range res {
		if p == nil || p.StateKey() == nil {
			s.problems = append(s.problems, "resolution returned a nil / non-state event")
			continue
		}
		k := tupleOf(p)
		if other, dup := out[k]; dup && other != p.EventID() {
			s.problems = append(s.problems, fmt.Sprintf("resolution returned two events for (%s, %s)", k.EventType, k.StateKey))
		}
		out[k] = p.EventID()
	}
	return out
}

func (s *server) pos(id string) int {
	for i, x := range s.order {
		if x == id {
			return i
		}
	}
	return len(s.order)
}

// stateOver: the room state at a set of events (the states after them, resolved)
func (s *server) stateOver(ids []string) (state, error) {
	if len(ids) == 0 {
		return state{}, nil
	}
	var sets []state
	for _, id := range ids {
		st, ok := s.sa[id]
		if !ok {
			return nil, fmt.Errorf("no state after %s (event %d) at %s", id, s.w.byID[id], s.name)
		}
		sets = append(sets, st)
	}
	if len(sets) == 1 {
		return sets[0], nil
	}
	return s.resolve(sets), nil
}

// stateProvider is the server's gomatrixserverlib.StateProvider for ONE event: the state before it.
type stateProvider struct {
	s      *server
	before state
}

func (sp *stateProvider) StateIDsBeforeEvent(ctx context.Context, event gmsl.PDU) ([]string, error) {
	return sp.before.ids(), nil
}

func (sp *stateProvider) StateBeforeEvent(ctx context.Context, roomVer gmsl.RoomVersion, event gmsl.PDU, eventIDs []string) (map[string]gmsl.PDU, error) {
	out := map[string]gmsl.PDU{}
	for _, id := range sp.before.ids() {
		if p := sp.s.store[id]; p != nil {
			out[id] = p
		}
	}
	return out, nil
}

// ancestors through prev_events, as far as the server holds them (glue)
func (s *server) ancestors(p gmsl.PDU) map[string]bool {
	seen := map[string]bool{}
	var walk func(q gmsl.PDU)
	walk = func(q gmsl.PDU) {
		for _, id := range q.PrevEventIDs() {
			if !seen[id] {
				seen[id] = true
				if r := s.store[id]; r != nil {
					walk(r)
				}
			}
		}
	}
	walk(p)
	return seen
}

type processed struct {
	v      string
	detail string
}

var errSig = errors.New("signature")

// receive: an event arrives from another server as bytes.
func (s *server) receive(raw []byte) (gmsl.PDU, processed, error) {
	ctx := context.Background()
	if s.w.mode == "loader" {
		return s.receiveLoader(raw)
	}
	p, err := s.w.impl.NewEventFromUntrustedJSON(raw)
	if err != nil {
		return nil, processed{}, fmt.Errorf("NewEventFromUntrustedJSON refuses the sender's bytes: %w", err)
	}
	if err := gmsl.VerifyEventSignatures(ctx, p, s.w.keyRing, identityQuerier); err != nil {
		return p, processed{}, fmt.Errorf("%w: VerifyEventSignatures refuses a well signed event: %v", errSig, err)
	}
	return p, s.process(p, false), nil
}

// process: the receipt checks 4 and 5 and the bookkeeping that follows from the verdict.
func (s *server) process(p gmsl.PDU, own bool) processed {
	ctx := context.Background()
	before, err := s.stateOver(p.PrevEventIDs())
	if err != nil {
		panic("x06: " + err.Error())
	}
	var pr processed
	switch {
	case own && s.byz:
		pr.v = vAccepted // a byzantine server believes its own events
	default:
		// step 4
		citedRejected := ""
		for _, a := range p.AuthEventIDs() {
			if v, known := s.vd[a]; known && v != vAccepted {
				citedRejected = a
			}
		}
		chainErr := gmsl.VerifyEventAuthChain(ctx, p, s.provideEvents, identityQuerier)
		switch {
		case chainErr != nil:
			pr.v, pr.detail = vRejected, chainErr.Error()
		case citedRejected != "":
			s.glueOnly++
			pr.v, pr.detail = vRejected, fmt.Sprintf("cites auth event %d which this server rejected", s.w.byID[citedRejected])
		default:
			// step 5
			sp := &stateProvider{s: s, before: before}
			if err := gmsl.VerifyAuthRulesAtState(ctx, sp, p, false, identityQuerier); err != nil {
				pr.v, pr.detail = vStateRejected, err.Error()
			} else {
				pr.v = vAccepted
			}
		}
	}
	s.book(p, before, pr.v)
	return pr
}

// receiveLoader: the same pipeline through EventsLoader.LoadAndVerify (parse, signatures, auth chain, auth rules at
// the state before the event) in one library call.
func (s *server) receiveLoader(raw []byte) (gmsl.PDU, processed, error) {
	ctx := context.Background()
	// the state provider needs the state before the event, which needs the event's prev events: parse it once for those
	pre, err := s.w.impl.NewEventFromUntrustedJSON(raw)
	if err != nil {
		return nil, processed{}, fmt.Errorf("NewEventFromUntrustedJSON refuses the sender's bytes: %w", err)
	}
	before, err := s.stateOver(pre.PrevEventIDs())
	if err != nil {
		panic("x06: " + err.Error())
	}
	sp := &stateProvider{s: s, before: before}
	loader := gmsl.NewEventsLoader(s.w.ver, s.w.keyRing, sp, s.provideEvents, false)
	res, err := loader.LoadAndVerify(ctx, []json.RawMessage{raw}, gmsl.TopologicalOrderByPrevEvents, identityQuerier)
	if err != nil || len(res) != 1 {
		return pre, processed{}, fmt.Errorf("LoadAndVerify: %d results, error %v", len(res), err)
	}
	r := res[0]
	if r.Event == nil {
		return pre, processed{}, fmt.Errorf("LoadAndVerify dropped the event: %v", r.Error)
	}
	var pr processed
	citedRejected := ""
	for _, a := range r.Event.AuthEventIDs() {
		if v, known := s.vd[a]; known && v != vAccepted {
			citedRejected = a
		}
	}
	switch le := r.Error.(type) {
	case nil:
		if citedRejected != "" {
			s.glueOnly++
			pr.v, pr.detail = vRejected, fmt.Sprintf("cites auth event %d which this server rejected", s.w.byID[citedRejected])
		} else {
			pr.v = vAccepted
		}
	case gmsl.SignatureErr:
		return r.Event, processed{}, fmt.Errorf("%w: LoadAndVerify refuses a well signed event: %v", errSig, le)
	case gmsl.AuthChainErr:
		pr.v, pr.detail = vRejected, le.Error()
	case gmsl.AuthRulesErr:
		if citedRejected != "" {
			pr.v, pr.detail = vRejected, le.Error()
		} else {
			pr.v, pr.detail = vStateRejected, le.Error()
		}
	default:
		return r.Event, processed{}, fmt.Errorf("LoadAndVerify: unclassified error %v", r.Error)
	}
	s.book(r.Event, before, pr.v)
	return r.Event, pr, nil
}

// book: what follows from a verdict (glue): the event is stored; an accepted event replaces its (type, state_key)
// in the state before it and becomes the extremity in place of its ancestors; the current state is resolved anew
// when the extremities changed.
func (s *server) book(p gmsl.PDU, before state, v string) {
	id := p.EventID()
	if _, dup := s.store[id]; !dup {
		s.order = append(s.order, id)
	}
	s.store[id] = p
	s.vd[id] = v
	if v != vAccepted {
		s.sa[id] = before
		return
	}
	after := before
	if p.StateKey() != nil {
		after = before.clone()
		after[tupleOf(p)] = id
	}
	s.sa[id] = after
	anc := s.ancestors(p)
	var tips []string
	for _, t := range s.tips {
		if !anc[t] {
			tips = append(tips, t)
		}
	}
	s.tips = append(tips, id)
	if len(s.tips) == 1 {
		s.cur = after
		return
	}
	cur, err := s.stateOver(s.tips)
	if err != nil {
		panic("x06: " + err.Error())
	}
	s.cur = cur
}

// newEvent: the server builds an event of one of its users on its extremities.  The library selects the auth
// events from the server's current state; a byzantine server cites what the scenario says.
func (s *server) newEvent(e *ev, signer string, scripted bool) (gmsl.PDU, error) {
	w := s.w
	pe := w.proto(e)
	prev := append([]string{}, s.tips...)
	sort.Strings(prev)
	pe.PrevEvents = prev
	depth := int64(0)
	for _, t := range s.tips {
		if d := s.store[t].Depth(); d > depth {
			depth = d
		}
	}
	pe.Depth = depth + 1
	eb := w.impl.NewEventBuilderFromProtoEvent(pe)
	if scripted {
		var auth []string
		for _, a := range e.Auth {
			if isDomainless(string(w.ver)) && a == 1 {
				continue // implied by the room ID
			}
			auth = append(auth, w.ids[a])
		}
		sort.Strings(auth)
		pe.AuthEvents = auth
	} else {
		if err := eb.AddAuthEvents(s.authProvider(s.cur)); err != nil {
			return nil, fmt.Errorf("EventBuilder.AddAuthEvents: %w", err)
		}
		auth, _ := eb.AuthEvents.([]string)
		auth = append([]string{}, auth...)
		sort.Strings(auth)
		pe.AuthEvents = auth
	}
	return w.build(e, pe, signer), nil
}

// sendAllowed: may the server send the event - the library's Allowed over the server's current state
func (s *server) sendAllowed(p gmsl.PDU) error {
	return gmsl.Allowed(p, s.authProvider(s.cur), identityQuerier)
}

// ------------------------------------------------------------------------------------- joining over federation

type sendJoinResponse struct {
	auth, state gmsl.EventJSONs
}

func (r *sendJoinResponse) GetAuthEvents() gmsl.EventJSONs  { return r.auth }
func (r *sendJoinResponse) GetStateEvents() gmsl.EventJSONs { return r.state }

// answerSendJoin: the resident server's answer to send_join: the state before the join event and the auth chain of
// that state and of the join event
func (s *server) answerSendJoin(before state, join gmsl.PDU) *sendJoinResponse {
	r := &sendJoinResponse{}
	ids := before.ids()
	for _, id := range ids {
		r.state = append(r.state, append(spec.RawJSON{}, s.store[id].JSON()...))
	}
	for _, id := range s.authChain(append(append([]string{}, ids...), join.EventID())) {
		r.auth = append(r.auth, append(spec.RawJSON{}, s.store[id].JSON()...))
	}
	return r
}

// acceptSendJoin: the joining server checks the answer with CheckSendJoinResponse and holds what that returns.
func (s *server) acceptSendJoin(resp *sendJoinResponse, join gmsl.PDU) error {
	ctx := context.Background()
	nothing := func(roomVer gmsl.RoomVersion, eventIDs []string) ([]gmsl.PDU, error) {
		s.asked = append(s.asked, eventIDs...)
		return nil, nil
	}
	checked, err := gmsl.CheckSendJoinResponse(ctx, s.w.ver, resp, s.w.keyRing, join, nothing, identityQuerier)
	if err != nil {
		return fmt.Errorf("CheckSendJoinResponse: %w", err)
	}
	kept := map[string]bool{}
	st := state{}
	for _, p := range checked.GetAuthEvents().UntrustedEvents(s.w.ver) {
		s.hold(p, vAccepted)
		kept[p.EventID()] = true
	}
	for _, p := range checked.GetStateEvents().UntrustedEvents(s.w.ver) {
		s.hold(p, vAccepted)
		kept[p.EventID()] = true
		st[tupleOf(p)] = p.EventID()
	}
	// what was handed over but not kept is known as rejected
	for _, list := range []gmsl.EventJSONs{resp.auth, resp.state} {
		for _, p := range list.UntrustedEvents(s.w.ver) {
			if !kept[p.EventID()] {
				s.hold(p, vRejected)
			}
		}
	}
	s.hold(join, vAccepted)
	after := st.clone()
	after[tupleOf(join)] = join.EventID()
	s.sa[join.EventID()] = after
	s.tips = []string{join.EventID()}
	s.cur = after
	return nil
}

func (s *server) hold(p gmsl.PDU, v string) {
	id := p.EventID()
	if _, dup := s.store[id]; !dup {
		s.order = append(s.order, id)
		s.store[id] = p
	}
	if _, ok := s.vd[id]; !ok {
		s.vd[id] = v
	}
}

// clone: a second server holding exactly what this one holds now (for the re-ordering check)
func (s *server) clone() *server {
	c := newServer(s.w, s.idx, s.byz)
	for k, v := range s.store {
		c.store[k] = v
	}
	c.order = append([]string{}, s.order...)
	for k, v := range s.vd {
		c.vd[k] = v
	}
	for k, v := range s.sa {
		c.sa[k] = v
	}
	c.tips = append([]string{}, s.tips...)
	c.cur = s.cur
	return c
}
