// Command x06 binds spec/Fed.tla (a room replicated between several homeservers; convergence whatever the
// delivery order) to the real event-processing functions of gomatrixserverlib.
//
//	x06 x06    -in records.ndjson [-mode loader]   replay Fed_gen.tla behaviours step by step on real servers
//	x06 x06rec -out trace.ndjson -n runs [-mode byz] three real servers, random interleavings, longer histories:
//	                                               one NDJSON line per step for Fed_trace.tla
//
// Every server is a small struct (server.go) whose every decision is made by the library: EventBuilder.Build and
// AddAuthEvents, Allowed, NewEventFromUntrustedJSON, VerifyEventSignatures over a real KeyRing,
// VerifyEventAuthChain, ResolveConflictsNew, VerifyAuthRulesAtState (or EventsLoader.LoadAndVerify),
// CheckSendJoinResponse, ReverseTopologicalOrdering.
package main

import (
	"encoding/json"
	"io"
	"os"
	"runtime/pprof"

	"github.com/sirupsen/logrus"

	"verifharness/hx"
)

func init() {
	logrus.SetOutput(io.Discard)
	logrus.SetLevel(logrus.PanicLevel)
	hx.Register("x06", "replay Fed_gen.tla behaviours on real servers (every decision by the library)", func(a *hx.Args) error {
		return hx.ReplayAll(a, func(i int, raw json.RawMessage) hx.Result { return replayOne(i, raw, a.Seed, a.Mode) })
	})
	hx.Register("x06rec", "run three real servers with random interleavings and record one NDJSON line per step for Fed_trace.tla", record)
}

func main() {
	if p := os.Getenv("X06_CPUPROFILE"); p != "" { // development aid
		if f, err := os.Create(p); err == nil {
			_ = pprof.StartCPUProfile(f)
			defer pprof.StopCPUProfile()
		}
	}
	hx.Main()
}
