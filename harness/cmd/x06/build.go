package main

// The room as the network sees it: the events on the wire (the sender's signed JSON), the correspondence between
// model event numbers and the REAL event IDs (reference hashes from room version 3 on: an event's ID exists once
// the event has been built), and the construction of one event from its abstract description with the real
// EventBuilder.  (Content realisation copied from harness/cmd/c14/build.go.)

import (
	"crypto/sha1"
	"fmt"
	"sort"
	"sync"
	"time"

	gmsl "github.com/matrix-org/gomatrixserverlib"
	"github.com/matrix-org/gomatrixserverlib/spec"
)

var typeNames = map[string]string{"create": "m.room.create", "member": "m.room.member", "pl": "m.room.power_levels",
	"jr": "m.room.join_rules", "topic": "m.room.topic"}

var abstractType = map[string]string{"m.room.create": "create", "m.room.member": "member", "m.room.power_levels": "pl",
	"m.room.join_rules": "jr", "m.room.topic": "topic"}

var homeOf = map[string]int{"creator": 1, "alice": 1, "bob": 2, "carol": 2}

type world struct {
	ver     gmsl.RoomVersion
	impl    gmsl.IRoomVersion
	n       int
	room    string
	ids     map[int]string // model event number -> real event ID
	byID    map[string]int
	wire    map[int][]byte // the event as its sender put it on the wire
	servers []*server      // 1..n (index 0 unused)
	keyRing gmsl.JSONVerifier
	atJoin  map[int]*server // what a server held when it entered the room (server 1: after the creation prefix)
	carolAt int             // carol's homeserver (3 with three servers, else 2)
	mode    string
	// diagnostics for the nontrivial class
	resolutions int
}

func newWorld(ver string, n int, byz []int, mode string) *world {
	w := &world{ver: gmsl.RoomVersion(ver), n: n, room: "!room:hs1", ids: map[int]string{}, byID: map[string]int{},
		wire: map[int][]byte{}, keyRing: newKeyRing(), carolAt: 2, mode: mode, atJoin: map[int]*server{}}
	w.impl = gmsl.MustGetRoomVersion(w.ver)
	if n >= 3 {
		w.carolAt = 3
	}
	w.servers = make([]*server, n+1)
	for i := 1; i <= n; i++ {
		w.servers[i] = newServer(w, i, hasInt(byz, i))
	}
	return w
}

func (w *world) home(user string) int {
	if user == "carol" {
		return w.carolAt
	}
	return homeOf[user]
}

func (w *world) userID(user string) string {
	return fmt.Sprintf("@%s:hs%d", user, w.home(user))
}

// content: what the sending user puts into the event (the model's choice, realised)
func (w *world) content(e *ev) map[string]interface{} {
	switch e.Type {
	case "create":
		c := map[string]interface{}{"room_version": string(w.ver)}
		if !(string(w.ver) == "11" || isDomainless(string(w.ver))) {
			c["creator"] = w.userID(e.Sender)
		}
		return c
	case "member":
		return map[string]interface{}{"membership": e.Membership}
	case "pl":
		users := map[string]int64{}
		for u, rk := range e.PLU {
			if rk >= 0 {
				users[w.userID(u)] = roomLadder[rk]
			}
		}
		return map[string]interface{}{"users": users}
	case "jr":
		return map[string]interface{}{"join_rule": e.JR}
	default:
		return map[string]interface{}{"topic": fmt.Sprintf("topic %d", e.ID)}
	}
}

// proto: the event without its position in the room (prev events, auth events, depth are the sending server's)
func (w *world) proto(e *ev) *gmsl.ProtoEvent {
	pe := &gmsl.ProtoEvent{SenderID: w.userID(e.Sender), RoomID: w.room, Type: typeNames[e.Type]}
	if e.Type == "member" {
		pe.StateKey = strp(w.userID(e.SKey))
	} else {
		pe.StateKey = strp("")
	}
	if err := pe.SetContent(w.content(e)); err != nil {
		panic(err)
	}
	if isDomainless(string(w.ver)) && e.Type == "create" {
		pe.RoomID = ""
	}
	return pe
}

var buildCache sync.Map

// shaBucket: in room version 1 conflicts between events of equal depth are broken by the SHA-1 of the (random)
// event ID; the model carries that order as a rank.  The event is built until the hash of its ID falls into the
// bucket of its rank, so that the real order of the hashes is the model's order of the ranks.
func shaBucket(eventID string) int {
	h := sha1.Sum([]byte(eventID))
	return int(h[0]) / 2 // 128 buckets (ranks are below 128)
}

// build signs the event with the key of `origin` (the sender's homeserver) through the real EventBuilder.
// Identical events recur in thousands of records: each is built once per process.
func (w *world) build(e *ev, pe *gmsl.ProtoEvent, origin string) gmsl.PDU {
	prev, _ := pe.PrevEvents.([]string)
	auth, _ := pe.AuthEvents.([]string)
	cacheKey := fmt.Sprintf("%s|%s|%s|%s|%s|%s|%v|%s|%v|%v|%d|%d|%d|%d|%s|%d", w.ver, pe.RoomID, e.Type, e.Sender, e.SKey, e.Membership,
		e.PLU, e.JR, prev, auth, pe.Depth, e.TS, e.IDR, e.SHA, origin, w.carolAt)
	if e.Type == "topic" {
		cacheKey += fmt.Sprintf("|%d", e.ID)
	}
	if c, ok := buildCache.Load(cacheKey); ok {
		return c.(gmsl.PDU)
	}
	// distinct events have distinct timestamps: ties on the model's timestamp rank are broken by the model's
	// event-ID rank (the real event IDs are hashes: their order cannot be chosen)
	now := baseTime.Add(time.Duration(e.TS*1000+int64(e.IDR)*10) * time.Millisecond)
	var p gmsl.PDU
	var err error
	for try := 0; ; try++ {
		p, err = w.impl.NewEventBuilderFromProtoEvent(pe).Build(now, spec.ServerName(origin), keyID, serverKeys[origin].priv)
		if err != nil {
			panic(fmt.Sprintf("x06: cannot build event %d: %v", e.ID, err))
		}
		if w.impl.EventIDFormat() != gmsl.EventIDFormatV1 || shaBucket(p.EventID()) == e.SHA%128 {
			break
		}
		if try > 20000 {
			panic("x06: no event ID with the wanted SHA-1 rank")
		}
	}
	// an invite is also signed by the invited user's server (the /invite round trip)
	if e.Type == "member" && e.Membership == "invite" {
		if ts := serverOf(w.userID(e.SKey)); ts != origin {
			signed := p.Sign(ts, keyID, serverKeys[ts].priv)
			p, err = w.impl.NewEventFromTrustedJSON(signed.JSON(), false)
			if err != nil {
				panic(fmt.Sprintf("x06: cannot re-parse the doubly signed event %d: %v", e.ID, err))
			}
		}
	}
	_ = p.EventID()
	if c, loaded := buildCache.LoadOrStore(cacheKey, p); loaded {
		return c.(gmsl.PDU)
	}
	return p
}

// publish records a newly built event: its number, its ID, its bytes on the wire.
func (w *world) publish(n int, p gmsl.PDU) {
	w.ids[n] = p.EventID()
	w.byID[p.EventID()] = n
	w.wire[n] = p.JSON()
	if n == 1 && isDomainless(string(w.ver)) {
		w.room = "!" + p.EventID()[1:]
	}
}

// nums maps event IDs to sorted model numbers (-1: not an event of the room).
func (w *world) nums(ids []string) []int {
	out := make([]int, 0, len(ids))
	for _, id := range ids {
		if n, ok := w.byID[id]; ok {
			out = append(out, n)
		} else {
			out = append(out, -1)
		}
	}
	sort.Ints(out)
	return out
}

func (w *world) reals(ns []int) []string {
	out := make([]string, 0, len(ns))
	for _, n := range ns {
		out = append(out, w.ids[n])
	}
	sort.Strings(out)
	return out
}

// clone: a world holding what this one holds (servers included); events are shared, they are never modified
func (w *world) clone() *world {
	c := &world{ver: w.ver, impl: w.impl, n: w.n, room: w.room, ids: make(map[int]string, len(w.ids)+8), byID: make(map[string]int, len(w.byID)+8),
		wire: make(map[int][]byte, len(w.wire)+8), keyRing: w.keyRing, carolAt: w.carolAt, mode: w.mode, atJoin: map[int]*server{}}
	for i, s := range w.atJoin {
		c.atJoin[i] = s.clone()
		c.atJoin[i].w = c
	}
	for k, v := range w.ids {
		c.ids[k] = v
	}
	for k, v := range w.byID {
		c.byID[k] = v
	}
	for k, v := range w.wire {
		c.wire[k] = v
	}
	c.servers = make([]*server, len(w.servers))
	for i, s := range w.servers {
		if s != nil {
			c.servers[i] = s.clone()
			c.servers[i].w = c
		}
	}
	return c
}
