package main

// The environment every server of a replayed room shares: one ed25519 key per homeserver, a key database holding
// the public keys behind a REAL KeyRing (signatures are verified by the library), the user directory.
// (Copied and trimmed from harness/cmd/c14/env.go.)

import (
	"context"
	"crypto/ed25519"
	"crypto/sha256"
	"fmt"
	"strings"
	"time"

	gmsl "github.com/matrix-org/gomatrixserverlib"
	"github.com/matrix-org/gomatrixserverlib/spec"
)

const keyID = gmsl.KeyID("ed25519:k1")

// the events were sent long ago: no dependence on the wall clock (key validity is checked against
// min(valid_until, now + 7 days), far later)
var baseTime = time.Date(2020, 1, 1, 0, 0, 0, 0, time.UTC)

// power-level ranks of the model (MatrixBase.tla) -> concrete levels; rank 1 is 0, rank 3 is 50
var roomLadder = [5]int64{-1, 0, 25, 50, 100}

type serverKey struct {
	pub  ed25519.PublicKey
	priv ed25519.PrivateKey
}

func keyFromSeed(s string) serverKey {
	h := sha256.Sum256([]byte("x06-server-key-" + s))
	priv := ed25519.NewKeyFromSeed(h[:])
	return serverKey{priv.Public().(ed25519.PublicKey), priv}
}

var serverKeys = map[string]serverKey{"hs1": keyFromSeed("hs1"), "hs2": keyFromSeed("hs2"), "hs3": keyFromSeed("hs3")}

func serverName(idx int) string { return fmt.Sprintf("hs%d", idx) }

func isDomainless(ver string) bool { return ver == "12" || ver == "org.matrix.hydra.11" }

func serverOf(userID string) string { return userID[strings.IndexByte(userID, ':')+1:] }

func strp(s string) *string { return &s }

func identityQuerier(roomID spec.RoomID, senderID spec.SenderID) (*spec.UserID, error) {
	return spec.NewUserID(string(senderID), true)
}

// keyDB implements gomatrixserverlib.KeyDatabase: the servers' real public keys, valid far beyond now.
type keyDB struct{}

func (keyDB) FetcherName() string { return "x06-keydb" }

func (keyDB) FetchKeys(ctx context.Context, requests map[gmsl.PublicKeyLookupRequest]spec.Timestamp) (map[gmsl.PublicKeyLookupRequest]gmsl.PublicKeyLookupResult, error) {
	out := map[gmsl.PublicKeyLookupRequest]gmsl.PublicKeyLookupResult{}
	validUntil := spec.AsTimestamp(time.Now().Add(1000 * 24 * time.Hour))
	for req := range requests {
		k, ok := serverKeys[string(req.ServerName)]
		if !ok || req.KeyID != keyID {
			continue
		}
		out[req] = gmsl.PublicKeyLookupResult{
			VerifyKey:    gmsl.VerifyKey{Key: spec.Base64Bytes(k.pub)},
			ExpiredTS:    gmsl.PublicKeyNotExpired,
			ValidUntilTS: validUntil,
		}
	}
	return out, nil
}

func (keyDB) StoreKeys(ctx context.Context, results map[gmsl.PublicKeyLookupRequest]gmsl.PublicKeyLookupResult) error {
	return nil
}

func newKeyRing() gmsl.JSONVerifier {
	return &gmsl.KeyRing{KeyDatabase: keyDB{}}
}
