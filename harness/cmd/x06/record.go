package main

// x06rec: code -> spec.  A seeded random driver runs THREE real servers (server.go: every decision is the
// library's) through longer histories than the exhaustive model contains: the creation prefix on hs1, bob's server
// joining, then 15-25 more events sent by random users of random servers, delivered in random order (sometimes
// with a gap that is fetched first), carol's server joining at a random moment.  One NDJSON line per step, in the
// vocabulary of Fed.tla's actions (the action and its parameters, what the server built, what the acting servers
// hold afterwards); a send the library refuses on the server's own state is logged as a "try" line.
// spec/Fed_trace.tla takes the same actions and re-derives every logged result.
//
// -mode "<version>[:byz][:loader]"   byz: hs3 is byzantine (sends what its state forbids, cites stale auth events)

import (
	"encoding/json"
	"fmt"
	"math/rand"
	"sort"
	"strings"

	gmsl "github.com/matrix-org/gomatrixserverlib"
	"github.com/matrix-org/gomatrixserverlib/spec"

	"verifharness/hx"
)

type line struct {
	A    string `json:"a"`
	Run  int    `json:"run"`
	S    int    `json:"s"`
	U    string `json:"u"`
	Kind string `json:"kind"`
	T    string `json:"t"`
	Lvl  int    `json:"lvl"`
	Rule string `json:"rule"`
	TS   int64  `json:"ts"`
	Via  int    `json:"via"`
	X    int    `json:"x"`
	E    int    `json:"e"`
	Prev []int  `json:"prev"`
	Auth []int  `json:"auth"`
	Res  []out  `json:"res"`
	Note string `json:"note,omitempty"`
}

type driver struct {
	w      *world
	rng    *rand.Rand
	tw     *hx.TraceWriter
	run    int
	byz    bool
	events []ev // abstract descriptions, as the driver chose them
	tries  int
}

func record(a *hx.Args) error {
	parts := strings.Split(a.Mode, ":")
	ver := parts[0]
	if ver == "" {
		ver = "10"
	}
	byz, mode := false, ""
	for _, p := range parts[1:] {
		switch p {
		case "byz":
			byz = true
		case "loader":
			mode = "loader"
		}
	}
	tw, err := hx.NewTraceWriter(a.Out)
	if err != nil {
		return err
	}
	rng := rand.New(rand.NewSource(a.Seed*7919 + int64(len(ver))*131 + int64(ver[len(ver)-1])))
	for run := 1; run <= a.N; run++ {
		r := hx.Safely(run, func() hx.Result {
			d := &driver{rng: rng, tw: tw, run: run, byz: byz}
			var bz []int
			if byz {
				bz = []int{3}
			}
			d.w = newWorld(ver, 3, bz, mode)
			return d.drive(15 + rng.Intn(11))
		})
		if !r.OK {
			r.I = run
			fmt.Println(mustJSON(r))
		}
	}
	return tw.Close()
}

func (d *driver) outOf(s *server, n int) out {
	w := d.w
	id := w.ids[n]
	return out{S: s.idx, E: n, V: s.vd[id], SA: w.nums(s.sa[id].ids()), Tips: w.nums(s.tips), Cur: w.nums(s.cur.ids())}
}

func noUsers() map[string]int {
	return map[string]int{"creator": -1, "alice": -1, "bob": -1, "carol": -1}
}

func rankOf(level int64) int {
	for r, l := range roomLadder {
		if l == level && r > 0 {
			return r
		}
	}
	return -2 // not a level of the ladder
}

// what a state says (read through the library's accessors)
func (d *driver) memIn(s *server, st state, user string) string {
	id, ok := st[gmsl.StateKeyTuple{EventType: spec.MRoomMember, StateKey: d.w.userID(user)}]
	if !ok {
		return "absent"
	}
	m, err := s.store[id].Membership()
	if err != nil {
		panic(err)
	}
	return m
}

func (d *driver) plUsers(s *server, st state) map[string]int {
	out := noUsers()
	id, ok := st[gmsl.StateKeyTuple{EventType: spec.MRoomPowerLevels, StateKey: ""}]
	if !ok {
		return out
	}
	c, err := s.store[id].PowerLevels()
	if err != nil {
		panic(err)
	}
	for u := range out {
		if l, ok := c.Users[d.w.userID(u)]; ok {
			out[u] = rankOf(l)
		}
	}
	return out
}

func (d *driver) levelIn(s *server, st state, user string) int {
	if d.w.impl.PrivilegedCreators() && user == "creator" {
		return 9
	}
	if r := d.plUsers(s, st)[user]; r >= 0 {
		return r
	}
	return 1 // users_default keeps its default 0
}

func (d *driver) jrIn(s *server, st state) string {
	id, ok := st[gmsl.StateKeyTuple{EventType: spec.MRoomJoinRules, StateKey: ""}]
	if !ok {
		return ""
	}
	r, err := s.store[id].JoinRule()
	if err != nil {
		panic(err)
	}
	return r
}

// plausible: Room.tla's cheap necessary conditions (the scenario space; not a judgement)
func (d *driver) plausible(s *server, st state, user, kind string) bool {
	m := d.memIn(s, st, user)
	switch kind {
	case "join":
		return m != "ban"
	case "leave":
		return m == "join" || m == "invite"
	case "invite":
		return m == "join"
	}
	return m == "join" && (d.byz || d.levelIn(s, st, user) >= 3)
}

// draft: the abstract event for (user, kind, target, level, rule) on the state st
func (d *driver) draft(s *server, st state, user, kind, t string, lvl int, rule string, ts int64) (*ev, bool) {
	n := len(d.events) + 1
	e := &ev{ID: n, Sender: user, PLU: noUsers(), TS: ts, IDR: n, SHA: n, Home: d.w.home(user)}
	switch kind {
	case "join":
		e.Type, e.SKey, e.Membership = "member", user, "join"
	case "leave":
		e.Type, e.SKey, e.Membership = "member", user, "leave"
	case "ban":
		e.Type, e.SKey, e.Membership = "member", t, "ban"
	case "kick":
		e.Type, e.SKey, e.Membership = "member", t, "leave"
	case "invite":
		e.Type, e.SKey, e.Membership = "member", t, "invite"
	case "pl":
		e.Type = "pl"
		e.PLU = d.plUsers(s, st)
		if e.PLU[t] == lvl {
			return nil, false // no change
		}
		e.PLU[t] = lvl
	case "jr":
		e.Type, e.JR = "jr", rule
		if d.jrIn(s, st) == rule {
			return nil, false
		}
	default:
		e.Type = "topic"
	}
	if (kind == "ban" || kind == "kick" || kind == "invite") && t == user {
		return nil, false
	}
	return e, true
}

var kinds = []string{"join", "leave", "ban", "kick", "invite", "pl", "pl", "pl", "jr", "topic", "topic"}
var users = []string{"creator", "alice", "bob", "carol"}

func (d *driver) emit(l line) {
	l.Run = d.run
	if l.Prev == nil {
		l.Prev = []int{}
	}
	if l.Auth == nil {
		l.Auth = []int{}
	}
	if l.Res == nil {
		l.Res = []out{}
	}
	d.tw.Emit(l)
}

// own: server s sends the event it drafted: built, published, processed by s itself
func (d *driver) own(s *server, e *ev, scriptedFrom *state) (gmsl.PDU, error) {
	w := d.w
	var p gmsl.PDU
	var err error
	if scriptedFrom != nil {
		// a byzantine server cites the auth events the library selects from an EARLIER state of its own
		saved := s.cur
		s.cur = *scriptedFrom
		p, err = s.newEvent(e, s.name, false)
		s.cur = saved
	} else {
		p, err = s.newEvent(e, s.name, false)
	}
	if err != nil {
		return nil, err
	}
	e.Prev, e.Auth, e.Depth = w.nums(p.PrevEventIDs()), w.nums(p.AuthEventIDs()), p.Depth()
	return p, nil
}

func (d *driver) commit(e *ev, p gmsl.PDU) {
	d.events = append(d.events, *e)
	d.w.publish(e.ID, p)
}

func (d *driver) drive(free int) hx.Result {
	w := d.w
	s1 := w.servers[1]
	d.emit(line{A: "reset", Note: fmt.Sprintf("room version %s, byzantine hs3: %v, mode %q", w.ver, d.byz, w.mode)})
	// the creation prefix of Room.tla, sent by hs1
	initPL := noUsers()
	if !w.impl.PrivilegedCreators() {
		initPL["creator"] = 4
	}
	prefix := []ev{
		{Type: "create", Sender: "creator", PLU: noUsers()},
		{Type: "member", Sender: "creator", SKey: "creator", Membership: "join", PLU: noUsers()},
		{Type: "pl", Sender: "creator", PLU: initPL},
		{Type: "jr", Sender: "creator", JR: "public", PLU: noUsers()},
		{Type: "member", Sender: "alice", SKey: "alice", Membership: "join", PLU: noUsers()},
	}
	for k := range prefix {
		e := &prefix[k]
		e.ID, e.TS, e.IDR, e.SHA, e.Home = k+1, 1, k+1, k+1, 1
		p, err := d.own(s1, e, nil)
		if err != nil {
			panic(err)
		}
		d.commit(e, p)
		if err := s1.sendAllowed(p); err != nil {
			panic(fmt.Sprintf("the library refuses prefix event %d on hs1's own state: %v", e.ID, err))
		}
		s1.process(p, true)
		d.emit(line{A: "create", S: 1, E: e.ID, Prev: e.Prev, Auth: e.Auth, Res: []out{d.outOf(s1, e.ID)}})
	}
	if !d.join(2, "bob", 1) {
		panic("bob cannot join the fresh public room")
	}
	sent := 0
	for guard := 0; sent < free && guard < free*60; guard++ {
		switch x := d.rng.Intn(100); {
		case x < 50:
			if d.send() {
				sent++
			}
		case x < 55 && !w.servers[3].inRoom():
			d.join(3, "carol", 1+d.rng.Intn(2))
		case x < 92:
			d.deliver(false)
		default:
			d.deliver(true)
		}
	}
	// everything that can still be delivered is delivered
	for d.deliver(false) {
	}
	// Convergence on the real servers
	for i := 1; i <= 3; i++ {
		for j := i + 1; j <= 3; j++ {
			if (d.byz && j == 3) || !w.servers[i].inRoom() || !w.servers[j].inRoom() {
				continue
			}
			if dis := converged(w, w.servers[i], w.servers[j]); dis != nil {
				return hx.Result{OK: false, Key: dis.key, What: fmt.Sprintf("run %d (room version %s): %s; events: %s", d.run, w.ver, dis.what, describeEvents(d.events, 6)),
					Want: dis.want, Got: dis.got}
			}
		}
	}
	for i := 1; i <= 3; i++ {
		if s := w.servers[i]; len(s.problems) > 0 || len(s.asked) > 0 {
			return hx.Result{OK: false, Key: "X06/trace/malformed-state-or-unknown-auth-event",
				What: fmt.Sprintf("run %d (room version %s) hs%d: %v; asked for unknown events %v", d.run, w.ver, i, s.problems, w.nums(s.asked))}
		}
	}
	return hx.Result{OK: true}
}

// join: the first user of server si joins through server via
func (d *driver) join(si int, user string, via int) bool {
	w := d.w
	s, v := w.servers[si], w.servers[via]
	if s.inRoom() || !v.inRoom() || v.byz || (si == 3 && !w.servers[2].inRoom()) {
		return false
	}
	if !d.plausible(v, v.cur, user, "join") {
		return false
	}
	ts := int64(1 + d.rng.Intn(3))
	e, _ := d.draft(v, v.cur, user, "join", user, 0, "", ts)
	p, err := v.newEvent(e, s.name, false)
	if err != nil {
		panic(err)
	}
	e.Prev, e.Auth, e.Depth = w.nums(p.PrevEventIDs()), w.nums(p.AuthEventIDs()), p.Depth()
	if v.sendAllowed(p) != nil {
		return false // the room does not let the user in (no line: nothing happened)
	}
	d.commit(e, p)
	before := v.cur
	got, _, err := v.receive(w.wire[e.ID])
	if err != nil {
		panic(err)
	}
	l := line{A: "join", S: si, U: user, Via: via, TS: ts, E: e.ID, Prev: e.Prev, Auth: e.Auth, Res: []out{d.outOf(v, e.ID)}}
	if v.vd[p.EventID()] != vAccepted {
		d.emit(l) // the resident server does not accept the join it drafted itself: the model will not explain this
		return false
	}
	if err := s.acceptSendJoin(v.answerSendJoin(before, got), p); err != nil {
		l.Note = err.Error()
		d.emit(l)
		return false
	}
	l.Res = append(l.Res, d.outOf(s, e.ID))
	d.emit(l)
	return true
}

// send: a random user of a random server in the room tries to send a random event
func (d *driver) send() bool {
	w := d.w
	var in []*server
	for i := 1; i <= 3; i++ {
		if w.servers[i].inRoom() {
			in = append(in, w.servers[i])
		}
	}
	s := in[d.rng.Intn(len(in))]
	var mine []string
	for _, u := range users {
		if w.home(u) == s.idx {
			mine = append(mine, u)
		}
	}
	u := mine[d.rng.Intn(len(mine))]
	kind := kinds[d.rng.Intn(len(kinds))]
	t, lvl, rule := u, 0, ""
	switch kind {
	case "ban", "kick", "invite":
		t = users[d.rng.Intn(len(users))]
	case "pl":
		t = users[1+d.rng.Intn(3)]
		lvl = []int{1, 3, 4}[d.rng.Intn(3)]
	case "jr":
		rule = []string{"public", "invite"}[d.rng.Intn(2)]
	}
	ts := int64(1 + d.rng.Intn(3))
	// a byzantine server sometimes argues from an earlier state of its own
	if s.byz && d.rng.Intn(3) == 0 {
		return d.stale(s, u, kind, t, lvl, rule, ts)
	}
	if !d.plausible(s, s.cur, u, kind) {
		return false
	}
	e, ok := d.draft(s, s.cur, u, kind, t, lvl, rule, ts)
	if !ok {
		return false
	}
	p, err := d.own(s, e, nil)
	if err != nil {
		panic(err)
	}
	l := line{A: "send", S: s.idx, U: u, Kind: kind, T: t, Lvl: lvl, Rule: rule, TS: ts, E: e.ID, Prev: e.Prev, Auth: e.Auth}
	if err := s.sendAllowed(p); err != nil {
		if !(s.byz && d.rng.Intn(2) == 0) {
			// an honest server does not send what its state forbids (a byzantine server that happens to refrain
			// has made no statement: the specification lets it send anything)
			if d.tries < 40 && !s.byz {
				d.tries++
				l.A, l.E, l.Note = "try", 0, err.Error()
				d.emit(l)
			}
			return false
		}
		l.Note = "sent although the server's own state forbids it: " + err.Error()
	}
	d.commit(e, p)
	s.process(p, true)
	l.Res = []out{d.outOf(s, e.ID)}
	d.emit(l)
	return true
}

// stale: the byzantine server sends an event its current state forbids, citing the auth events of the state after an
// earlier event x (an ancestor of all its extremities) that allowed it
func (d *driver) stale(s *server, u, kind, t string, lvl int, rule string, ts int64) bool {
	w := d.w
	var cands []string
	for id, st := range s.sa {
		if sameState(st, s.cur) {
			continue
		}
		anc := true
		for _, tip := range s.tips {
			if !s.ancestors(s.store[tip])[id] {
				anc = false
			}
		}
		if anc {
			cands = append(cands, id)
		}
	}
	if len(cands) == 0 {
		return false
	}
	sort.Strings(cands)
	xid := cands[d.rng.Intn(len(cands))]
	old := s.sa[xid]
	if !d.plausible(s, old, u, kind) {
		return false
	}
	e, ok := d.draft(s, old, u, kind, t, lvl, rule, ts)
	if !ok {
		return false
	}
	p, err := d.own(s, e, &old)
	if err != nil {
		panic(err)
	}
	if gmsl.Allowed(p, s.authProvider(old), identityQuerier) != nil || s.sendAllowed(p) == nil {
		return false // not allowed by the earlier state, or not forbidden by the current one: not this kind of event
	}
	d.commit(e, p)
	s.process(p, true)
	d.emit(line{A: "stale", S: s.idx, U: u, Kind: kind, T: t, Lvl: lvl, Rule: rule, TS: ts, X: w.byID[xid], E: e.ID, Prev: e.Prev, Auth: e.Auth,
		Res: []out{d.outOf(s, e.ID)}})
	return true
}

// deliver: a random server receives a random event it can process (gap: one whose prev events it has to fetch first)
func (d *driver) deliver(gap bool) bool {
	w := d.w
	type cand struct {
		s       *server
		n       int
		missing []int
	}
	var cands []cand
	for i := 1; i <= 3; i++ {
		s := w.servers[i]
		if !s.inRoom() {
			continue
		}
		for n := 1; n <= len(d.events); n++ {
			if _, known := s.store[w.ids[n]]; known || len(d.events[n-1].Prev) == 0 {
				continue
			}
			// the prev events, transitively, that s has not processed
			missing := map[int]bool{}
			okGap := true
			var walk func(m int)
			walk = func(m int) {
				for _, p := range d.events[m-1].Prev {
					if _, has := s.sa[w.ids[p]]; has || missing[p] {
						continue
					}
					missing[p] = true
					if _, known := s.store[w.ids[p]]; known || len(d.events[p-1].Prev) == 0 {
						okGap = false
					}
					walk(p)
				}
			}
			walk(n)
			var ms []int
			for m := range missing {
				ms = append(ms, m)
			}
			sort.Ints(ms)
			if !gap && len(ms) == 0 {
				cands = append(cands, cand{s, n, nil})
			}
			if gap && len(ms) > 0 && len(ms) <= 2 && okGap {
				cands = append(cands, cand{s, n, ms})
			}
		}
	}
	if len(cands) == 0 {
		return false
	}
	c := cands[d.rng.Intn(len(cands))]
	if !gap {
		if _, _, err := c.s.receive(w.wire[c.n]); err != nil {
			panic(fmt.Sprintf("hs%d receiving event %d: %v", c.s.idx, c.n, err))
		}
		d.emit(line{A: "deliver", S: c.s.idx, E: c.n, Res: []out{d.outOf(c.s, c.n)}})
		return true
	}
	nums := append(append([]int{}, c.missing...), c.n)
	d.rng.Shuffle(len(nums), func(a, b int) { nums[a], nums[b] = nums[b], nums[a] })
	var batch []gmsl.PDU
	for _, n := range nums {
		p, err := w.impl.NewEventFromUntrustedJSON(w.wire[n])
		if err != nil {
			panic(err)
		}
		batch = append(batch, p)
	}
	l := line{A: "gap", S: c.s.idx, E: c.n}
	for _, p := range gmsl.ReverseTopologicalOrdering(batch, gmsl.TopologicalOrderByPrevEvents) {
		n := w.byID[p.EventID()]
		if _, _, err := c.s.receive(w.wire[n]); err != nil {
			panic(fmt.Sprintf("hs%d receiving event %d: %v", c.s.idx, n, err))
		}
		l.Res = append(l.Res, d.outOf(c.s, n))
	}
	d.emit(l)
	return true
}

func mustJSON(v interface{}) string {
	b, err := json.Marshal(v)
	if err != nil {
		panic(err)
	}
	return string(b)
}
