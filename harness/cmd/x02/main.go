// Command x02 binds spec/KeyLife.tla (the life cycle of a server's signing keys seen through one
// long-lived key ring) to the real gomatrixserverlib.KeyRing.
//
//	x02 x02life -in records.ndjson   replay KeyLife_gen behaviours step by step: ONE KeyRing value per
//	                                 behaviour, a scripted KeyDatabase, the real DirectKeyFetcher and
//	                                 PerspectiveKeyFetcher (observed at the KeyFetcher interface) over a
//	                                 scripted KeyClient serving really signed key responses; one real
//	                                 VerifyJSONs call per Verify step, compared after every step
//	                                 (result, fetchers contacted and what they were asked, database)
//	                                 -mode stub: scripted KeyFetchers instead of the real ones
package main

import (
	"io"

	"github.com/sirupsen/logrus"

	"verifharness/hx"
)

func main() {
	// the key ring warns through logrus about every key it could not fetch
	logrus.SetOutput(io.Discard)
	hx.Main()
}
