package main

// x02life: spec -> code replay of KeyLife_gen behaviours.
//
// A record is {nk, v, order, nmode, steps}; a step is ["tick"] | ["rotate"] | ["renew"] | ["sync"] |
// ["down", f] | ["up", f] | ["verify", kid, ts, strict, sig, res, con, t, du, nu, tr, sn, dbb, dba].
// Environment steps move the simulated world; every "verify" step is ONE call of the real
// KeyRing.VerifyJSONs on the one key ring of the behaviour.  Compared after every call (and nothing
// else): the result (nil / error), the sequence of fetchers the key ring contacted and the key IDs each
// was asked for, that the database was consulted first (for the wanted key), and the content of the
// database afterwards.
// The replay of a behaviour stops at its first disagreement (what follows depends on the database).

import (
	"context"
	"encoding/json"
	"fmt"
	"strings"
	"sync"

	gmsl "github.com/matrix-org/gomatrixserverlib"

	"verifharness/hx"
)

type lifeRec struct {
	NK    int                 `json:"nk"`
	V     int64               `json:"v"`
	Order []string            `json:"order"`
	NMode string              `json:"nmode"`
	Steps [][]json.RawMessage `json:"steps"`
}

type verifyStep struct {
	Kid    int
	TS     int64
	Strict bool
	Sig    string
	Res    string
	Con    []string
	T      int64
	DU, NU bool
	Tr, Sn Table
	DBB    Table
	DBA    Table
}

func dec(raw json.RawMessage, v interface{}) {
	if err := json.Unmarshal(raw, v); err != nil {
		panic(fmt.Sprintf("undecodable step field %s: %v", string(raw), err))
	}
}

func parseVerify(s []json.RawMessage) verifyStep {
	if len(s) != 14 {
		panic(fmt.Sprintf("verify step with %d fields", len(s)))
	}
	var v verifyStep
	dec(s[1], &v.Kid)
	dec(s[2], &v.TS)
	dec(s[3], &v.Strict)
	dec(s[4], &v.Sig)
	dec(s[5], &v.Res)
	dec(s[6], &v.Con)
	dec(s[7], &v.T)
	dec(s[8], &v.DU)
	dec(s[9], &v.NU)
	dec(s[10], &v.Tr)
	dec(s[11], &v.Sn)
	dec(s[12], &v.DBB)
	dec(s[13], &v.DBA)
	return v
}

var (
	machineryMu  sync.Mutex
	machineryErr error
)

func machinery(format string, a ...interface{}) {
	machineryMu.Lock()
	if machineryErr == nil {
		machineryErr = fmt.Errorf(format, a...)
	}
	machineryMu.Unlock()
}

func init() {
	hx.Register("x02life", "replay KeyLife_gen behaviours step by step against one real KeyRing", func(a *hx.Args) error {
		stub := a.Mode == "stub"
		err := hx.ReplayAll(a, func(i int, raw json.RawMessage) hx.Result {
			var rec lifeRec
			if err := json.Unmarshal(raw, &rec); err != nil {
				panic(err)
			}
			return replayLife(&rec, a.Seed, stub)
		})
		if err != nil {
			return err
		}
		machineryMu.Lock()
		defer machineryMu.Unlock()
		return machineryErr
	})
}

// ---------------------------------------------------------------- canonical descriptions

// entryClass describes a database / fetcher entry relative to the clock tick t (no concrete values).
func entryClass(e Ent, t int64) string {
	switch {
	case !e.present():
		return "absent"
	case e.VU == -7:
		return "unpublished"
	case e.expired():
		return "expired"
	case t < e.VU:
		return "current-in-validity"
	}
	return "current-past-validity"
}

// forRequest adds how the request timestamp lies relative to the entry.
func forRequest(e Ent, v verifyStep) string {
	c := entryClass(e, v.T)
	switch {
	case !e.present():
		return c
	case e.expired():
		if v.TS < e.Exp {
			return c + "(ts<expired_ts)"
		}
		return c + "(ts>=expired_ts)"
	}
	r := "(ts<=valid_until"
	if v.TS > e.VU {
		r = "(ts>valid_until"
	}
	if v.TS > v.T+1 {
		r += ",ts-beyond-7d"
	}
	return c + r + ")"
}

func rule(v verifyStep) string {
	s := "lenient"
	if v.Strict {
		s = "strict"
	}
	if v.Sig != "good" {
		s += ",forged"
	}
	return s
}

// change describes how the entry of one key ID moved from a to b.
func change(a, b Ent, t int64) string {
	switch {
	case a == b:
		return "kept"
	case !b.present():
		return "deleted"
	case !a.present():
		return "new:" + entryClass(b, t)
	case a.expired() && b.expired():
		return "expired_ts-changed"
	case a.expired():
		return "expired->" + entryClass(b, t)
	case b.expired():
		return entryClass(a, t) + "->expired"
	case b.VU > a.VU:
		return entryClass(a, t) + "->later-valid_until"
	}
	return entryClass(a, t) + "->earlier-valid_until"
}

func seqName(s []string) string {
	if len(s) == 0 {
		return "none"
	}
	return strings.Join(s, "+")
}

// ---------------------------------------------------------------- replay

func replayLife(rec *lifeRec, seed int64, stub bool) hx.Result {
	w := newWorld(seed, rec.NK, rec.V, rec.NMode)
	kr := w.keyRing(rec.Order, stub)
	ncall := 0
	nt := ""
	for si, s := range rec.Steps {
		var a string
		dec(s[0], &a)
		if a != "verify" {
			f := ""
			if len(s) > 1 {
				dec(s[1], &f)
			}
			if err := w.apply(a, f); err != nil {
				machinery("step %d: %v", si, err)
				return hx.Result{OK: true, Skip: true, What: "machinery: " + err.Error()}
			}
			continue
		}
		v := parseVerify(s)
		// the simulated world must be the one the specification describes
		if w.t != v.T || w.dirUp != v.DU || w.notUp != v.NU || !w.truth().equal(v.Tr) || !w.snap.equal(v.Sn) {
			machinery("step %d: simulated world differs from the specification: t=%d/%d direct=%v/%v notary=%v/%v origin=%v/%v copy=%v/%v",
				si, w.t, v.T, w.dirUp, v.DU, w.notUp, v.NU, w.truth(), v.Tr, w.snap, v.Sn)
			return hx.Result{OK: true, Skip: true, What: "machinery: world mismatch"}
		}
		if !w.db.equal(v.DBB) {
			machinery("step %d: database before the call differs from the specification although every earlier step agreed: %v / %v", si, w.db, v.DBB)
			return hx.Result{OK: true, Skip: true, What: "machinery: database mismatch"}
		}
		ncall++
		w.obs = &callObs{}
		check := gmsl.SignatureValidityCheckFunc(gmsl.NoStrictValidityCheck)
		if v.Strict {
			check = gmsl.StrictValiditySignatureCheck
		}
		res, err := kr.VerifyJSONs(context.Background(), []gmsl.VerifyJSONRequest{{
			ServerName:           originName,
			AtTS:                 w.ms(v.TS),
			Message:              w.message(ncall, v.Kid, v.TS, v.Sig),
			ValidityCheckingFunc: check,
		}})
		w.mu.Lock()
		obs := w.obs
		dbAfter := w.db.clone()
		w.mu.Unlock()

		got := "fail"
		switch {
		case err != nil:
			got = "error"
		case len(res) != 1:
			got = fmt.Sprintf("%d-results", len(res))
		case res[0].Error == nil:
			got = "ok"
		}
		var gotCon []string
		askedOK := true
		for _, c := range obs.Contacts {
			gotCon = append(gotCon, c.Who)
			if len(c.Asked) != 1 || c.Asked[0] != v.Kid {
				askedOK = false
			}
		}
		held := v.DBB[v.Kid-1]
		where := fmt.Sprintf("db=%s/%s", forRequest(held, v), rule(v))

		// ---- compare
		var keys, whats []string
		for k := 1; k <= rec.NK; k++ {
			wantE, gotE := v.DBA[k-1], dbAfter[k-1]
			if wantE == gotE {
				continue
			}
			role := "asked-key"
			if k != v.Kid {
				role = "unasked-key"
			}
			keys = append(keys, fmt.Sprintf("X02/db/%s/held=%s/want=%s/got=%s", role,
				entryClass(v.DBB[k-1], v.T), change(v.DBB[k-1], wantE, v.T), change(v.DBB[k-1], gotE, v.T)))
			whats = append(whats, fmt.Sprintf("database entry of key ID %d after the call: specification %v, real %v (before: %v)", k, wantE, gotE, v.DBB[k-1]))
		}
		if got != v.Res {
			keys = append(keys, fmt.Sprintf("X02/result/want=%s/got=%s/%s", v.Res, got, where))
			whats = append(whats, fmt.Sprintf("result: specification %s, real %s", v.Res, got))
		}
		if seqName(gotCon) != seqName(v.Con) {
			keys = append(keys, fmt.Sprintf("X02/contacts/want=%s/got=%s/%s", seqName(v.Con), seqName(gotCon), where))
			whats = append(whats, fmt.Sprintf("fetchers contacted: specification %v, real %v", v.Con, gotCon))
		} else if !askedOK {
			keys = append(keys, fmt.Sprintf("X02/contacts/asked-for-other-keys/%s", where))
			whats = append(whats, fmt.Sprintf("a fetcher was asked for key IDs other than the one wanted (%d): %+v", v.Kid, obs.Contacts))
		}
		// the database is consulted first, for the wanted key (later reads are its own business)
		if len(obs.DBAsked) == 0 || len(obs.DBAsked[0]) != 1 || obs.DBAsked[0][0] != v.Kid || obs.Seq[0] != "db" {
			keys = append(keys, "X02/database/not-asked-first-for-the-wanted-key")
			whats = append(whats, fmt.Sprintf("the database was asked %v, order of events %v", obs.DBAsked, obs.Seq))
		}
		if len(obs.Odd) > 0 && len(keys) == 0 {
			keys = append(keys, "X02/odd")
			whats = append(whats, strings.Join(obs.Odd, "; "))
		}
		if len(keys) > 0 {
			return hx.Result{
				OK:  false,
				Key: keys[0],
				What: fmt.Sprintf("call %d (step %d) of the behaviour: Verify(key ID %d, ts=%d, %s) at tick %d, direct %s, notary %s, order %v, notary mode %s: %s",
					ncall, si+1, v.Kid, v.TS, rule(v), v.T, upDown(v.DU), upDown(v.NU), rec.Order, rec.NMode, strings.Join(whats, "; ")),
				Want:  map[string]interface{}{"res": v.Res, "con": v.Con, "db": v.DBA},
				Got:   map[string]interface{}{"res": got, "con": gotCon, "db": dbAfter},
				Extra: map[string]interface{}{"step": si + 1, "all_keys": keys, "observed": obs, "origin": v.Tr, "notary_copy": v.Sn, "db_before": v.DBB},
			}
		}
		// class of the last call of the behaviour (the transition this record is there for)
		ch := ""
		for k := 1; k <= rec.NK; k++ {
			if c := change(v.DBB[k-1], dbAfter[k-1], v.T); c != "kept" {
				if k == v.Kid {
					ch += " asked:" + c
				} else {
					ch += " other:" + c
				}
			}
		}
		nt = fmt.Sprintf("%s|%s|con=%s|%s|%s|%s", got, where, seqName(gotCon), strings.Join(rec.Order, ""), rec.NMode, strings.TrimSpace(ch))
	}
	if ncall == 0 {
		machinery("a behaviour without a call")
	}
	return hx.Result{OK: true, NT: nt}
}

func upDown(b bool) string {
	if b {
		return "up"
	}
	return "down"
}
