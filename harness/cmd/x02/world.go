package main

// The world a KeyLife behaviour runs in, and its concretisation.
//
// Abstract vocabulary (KeyLife.tla / KeyLife_gen.tla):
//   key ID k (1..NK)      -> "ed25519:k<k>" of server origin.example.org, key material = a real ed25519
//                            pair derived from (seed, "origin", k); a key ID is never reused
//   entry <<vu, exp>>     -> PublicKeyLookupResult{ValidUntilTS, ExpiredTS}; -1 (NoTS) -> the library's 0
//   tick x, clock in tick t -> base + (x - t) * 7 days - 3.5 days, base = time.Now() when the behaviour
//                            starts: every datum lies on a tick, the real clock half a tick after tick t,
//                            so every comparison against time.Now() (now < valid_until_ts, the 7-day
//                            cap) has a margin of 3.5 days
// No clock hook.  The key ring keeps no state of its own; its persistent state is the KeyDatabase, which
// is scripted here and holds ABSTRACT entries: when a tick passes, everything it returns (and everything
// the origin / notary serve) is simply realised relative to the new tick.  That is how time passes
// through one long-lived KeyRing without touching the clock.
//
// The origin and the notary are simulated here from the environment steps of the behaviour (Rotate,
// Renew, Sync, ...) independently of the specification; before every call the simulation is compared
// with what the specification says the origin serves / the notary holds (a difference is a machinery
// error, never a verdict).

import (
	"bytes"
	"context"
	"crypto/ed25519"
	"crypto/sha256"
	"encoding/json"
	"errors"
	"fmt"
	"sort"
	"strings"
	"sync"
	"time"

	gmsl "github.com/matrix-org/gomatrixserverlib"
	"github.com/matrix-org/gomatrixserverlib/spec"
)

const (
	noTS       = int64(-1)
	tickMS     = int64(7 * 24 * 3600 * 1000)
	originName = spec.ServerName("origin.example.org")
	notaryName = spec.ServerName("notary.example.org")
	notaryKey  = gmsl.KeyID("ed25519:n1")
)

// Ent is one abstract entry <<vu, exp>>.
type Ent struct{ VU, Exp int64 }

var noEnt = Ent{noTS, noTS}

func (e Ent) present() bool { return e != noEnt }
func (e Ent) expired() bool { return e.Exp != noTS }

func (e *Ent) UnmarshalJSON(b []byte) error {
	var a [2]int64
	if err := json.Unmarshal(b, &a); err != nil {
		return err
	}
	e.VU, e.Exp = a[0], a[1]
	return nil
}

func (e Ent) MarshalJSON() ([]byte, error) { return json.Marshal([2]int64{e.VU, e.Exp}) }

// Table holds the entry of key ID k at index k-1.
type Table []Ent

func emptyTable(nk int) Table {
	t := make(Table, nk)
	for i := range t {
		t[i] = noEnt
	}
	return t
}

func (t Table) clone() Table { return append(Table(nil), t...) }

func (t Table) equal(u Table) bool {
	if len(t) != len(u) {
		return false
	}
	for i := range t {
		if t[i] != u[i] {
			return false
		}
	}
	return true
}

func (t Table) any() bool {
	for _, e := range t {
		if e.present() {
			return true
		}
	}
	return false
}

// ---------------------------------------------------------------- keys

type keyPair struct {
	pub  ed25519.PublicKey
	priv ed25519.PrivateKey
}

var keyCache sync.Map

func keyFor(seed int64, who string, k int) keyPair {
	id := fmt.Sprintf("x02|%d|%s|%d", seed, who, k)
	if v, ok := keyCache.Load(id); ok {
		return v.(keyPair)
	}
	h := sha256.Sum256([]byte(id))
	priv := ed25519.NewKeyFromSeed(h[:])
	kp := keyPair{pub: priv.Public().(ed25519.PublicKey), priv: priv}
	keyCache.Store(id, kp)
	return kp
}

func keyID(k int) gmsl.KeyID { return gmsl.KeyID(fmt.Sprintf("ed25519:k%d", k)) }

// kidOf maps a lookup request back to the abstract key ID (0: not a key of the origin's vocabulary).
func kidOf(r gmsl.PublicKeyLookupRequest, nk int) int {
	if r.ServerName != originName || !strings.HasPrefix(string(r.KeyID), "ed25519:k") {
		return 0
	}
	var k int
	if _, err := fmt.Sscanf(string(r.KeyID), "ed25519:k%d", &k); err != nil || k < 1 || k > nk || keyID(k) != r.KeyID {
		return 0
	}
	return k
}

// ---------------------------------------------------------------- the world

type contact struct {
	Who   string `json:"who"`   // "d" direct fetcher, "n" notary (perspective) fetcher
	Asked []int  `json:"asked"` // key IDs it was asked for (0: something else)
	Ret   Table  `json:"ret"`   // what it returned, abstract
	Err   bool   `json:"err,omitempty"`
}

type callObs struct {
	DBAsked  [][]int   `json:"db_asked"`
	Stores   [][]int   `json:"stores"`
	Contacts []contact `json:"contacts"`
	Client   []string  `json:"client"` // calls on the KeyClient underneath the real fetchers
	Seq      []string  `json:"seq"`    // order of database reads ("db"), fetcher contacts ("f"), stores ("st")
	Odd      []string  `json:"odd,omitempty"`
}

type world struct {
	seed  int64
	nk    int
	v     int64
	nmode string
	base  int64

	mu    sync.Mutex
	t     int64
	cur   int
	ovu   int64
	oexp  []int64
	snap  Table
	dirUp bool
	notUp bool
	db    Table
	obs   *callObs
}

func newWorld(seed int64, nk int, v int64, nmode string) *world {
	w := &world{seed: seed, nk: nk, v: v, nmode: nmode, base: time.Now().UnixMilli(),
		cur: 1, ovu: v, dirUp: true, notUp: true}
	w.oexp = make([]int64, nk)
	for i := range w.oexp {
		w.oexp[i] = noTS
	}
	w.snap = emptyTable(nk)
	w.db = emptyTable(nk)
	w.obs = &callObs{}
	return w
}

// truth is the key response the origin serves right now.
func (w *world) truth() Table {
	t := emptyTable(w.nk)
	for k := 1; k <= w.nk; k++ {
		switch {
		case k == w.cur:
			t[k-1] = Ent{w.ovu, noTS}
		case k < w.cur:
			t[k-1] = Ent{noTS, w.oexp[k-1]}
		}
	}
	return t
}

// apply performs one environment step.
func (w *world) apply(a, f string) error {
	w.mu.Lock()
	defer w.mu.Unlock()
	switch a {
	case "tick":
		w.t++
	case "rotate":
		if w.cur >= w.nk {
			return fmt.Errorf("rotate without a next key ID")
		}
		w.oexp[w.cur-1] = w.t
		w.cur++
		w.ovu = w.t + w.v
	case "renew":
		w.ovu = w.t + w.v
	case "sync":
		w.snap = w.truth()
	case "down", "up":
		switch f {
		case "d":
			w.dirUp = a == "up"
		case "n":
			w.notUp = a == "up"
		default:
			return fmt.Errorf("unknown fetcher %q", f)
		}
	default:
		return fmt.Errorf("unknown step %q", a)
	}
	return nil
}

// ---------------------------------------------------------------- time

func (w *world) ms(x int64) spec.Timestamp {
	if x == noTS {
		return 0
	}
	return spec.Timestamp(w.base + (x-w.t)*tickMS - tickMS/2)
}

func (w *world) tick(ts spec.Timestamp) (int64, bool) {
	if ts == 0 {
		return noTS, true
	}
	d := int64(ts) - w.base + tickMS/2
	q := d / tickMS
	if d%tickMS != 0 {
		return 0, false
	}
	return q + w.t, true
}

func (w *world) result(k int, e Ent) gmsl.PublicKeyLookupResult {
	return gmsl.PublicKeyLookupResult{
		VerifyKey:    gmsl.VerifyKey{Key: spec.Base64Bytes(keyFor(w.seed, "origin", k).pub)},
		ValidUntilTS: w.ms(e.VU),
		ExpiredTS:    w.ms(e.Exp),
	}
}

// abstract projects a lookup result back; ok = false if it is not expressible (foreign key material,
// a time off the tick grid).
func (w *world) abstract(k int, r gmsl.PublicKeyLookupResult) (Ent, bool) {
	vu, ok1 := w.tick(r.ValidUntilTS)
	exp, ok2 := w.tick(r.ExpiredTS)
	same := bytes.Equal(r.Key, keyFor(w.seed, "origin", k).pub)
	return Ent{vu, exp}, ok1 && ok2 && same
}

func (w *world) abstractResults(res map[gmsl.PublicKeyLookupRequest]gmsl.PublicKeyLookupResult) (Table, []string) {
	t := emptyTable(w.nk)
	var odd []string
	for r, v := range res {
		k := kidOf(r, w.nk)
		if k == 0 {
			odd = append(odd, fmt.Sprintf("result for unknown name %s/%s", r.ServerName, r.KeyID))
			continue
		}
		e, ok := w.abstract(k, v)
		if !ok {
			odd = append(odd, fmt.Sprintf("result for key ID %d not on the grid: vu=%d exp=%d", k, v.ValidUntilTS, v.ExpiredTS))
			continue
		}
		t[k-1] = e
	}
	return t, odd
}

func askedKids(reqs map[gmsl.PublicKeyLookupRequest]spec.Timestamp, nk int) []int {
	out := make([]int, 0, len(reqs))
	for r := range reqs {
		out = append(out, kidOf(r, nk))
	}
	sort.Ints(out)
	return out
}

// ---------------------------------------------------------------- the scripted key database

var errScripted = errors.New("scripted outage")

type dbStub struct{ w *world }

func (d *dbStub) FetcherName() string { return "scripted key database" }

func (d *dbStub) FetchKeys(_ context.Context, reqs map[gmsl.PublicKeyLookupRequest]spec.Timestamp) (map[gmsl.PublicKeyLookupRequest]gmsl.PublicKeyLookupResult, error) {
	w := d.w
	w.mu.Lock()
	defer w.mu.Unlock()
	w.obs.DBAsked = append(w.obs.DBAsked, askedKids(reqs, w.nk))
	w.obs.Seq = append(w.obs.Seq, "db")
	out := map[gmsl.PublicKeyLookupRequest]gmsl.PublicKeyLookupResult{}
	for r := range reqs {
		if k := kidOf(r, w.nk); k != 0 && w.db[k-1].present() {
			out[r] = w.result(k, w.db[k-1])
		}
	}
	return out, nil
}

// StoreKeys is a plain upsert, like the SQL tables of a homeserver.
func (d *dbStub) StoreKeys(_ context.Context, results map[gmsl.PublicKeyLookupRequest]gmsl.PublicKeyLookupResult) error {
	w := d.w
	w.mu.Lock()
	defer w.mu.Unlock()
	var kids []int
	for r, v := range results {
		k := kidOf(r, w.nk)
		kids = append(kids, k)
		if k == 0 {
			w.obs.Odd = append(w.obs.Odd, fmt.Sprintf("stored an unknown name %s/%s", r.ServerName, r.KeyID))
			continue
		}
		e, ok := w.abstract(k, v)
		if !ok {
			w.obs.Odd = append(w.obs.Odd, fmt.Sprintf("stored for key ID %d something the origin never published: vu=%d exp=%d", k, v.ValidUntilTS, v.ExpiredTS))
			e = Ent{-7, -7}
		}
		w.db[k-1] = e
	}
	sort.Ints(kids)
	w.obs.Stores = append(w.obs.Stores, kids)
	w.obs.Seq = append(w.obs.Seq, "st")
	return nil
}

// ---------------------------------------------------------------- fetchers

// spy observes a KeyFetcher at the interface the key ring uses.
type spy struct {
	w     *world
	who   string
	inner gmsl.KeyFetcher
}

func (s *spy) FetcherName() string { return s.inner.FetcherName() }

func (s *spy) FetchKeys(ctx context.Context, reqs map[gmsl.PublicKeyLookupRequest]spec.Timestamp) (map[gmsl.PublicKeyLookupRequest]gmsl.PublicKeyLookupResult, error) {
	asked := askedKids(reqs, s.w.nk)
	s.w.mu.Lock()
	s.w.obs.Seq = append(s.w.obs.Seq, "f")
	s.w.mu.Unlock()
	res, err := s.inner.FetchKeys(ctx, reqs)
	s.w.mu.Lock()
	defer s.w.mu.Unlock()
	ret, odd := s.w.abstractResults(res)
	s.w.obs.Odd = append(s.w.obs.Odd, odd...)
	s.w.obs.Contacts = append(s.w.obs.Contacts, contact{Who: s.who, Asked: asked, Ret: ret, Err: err != nil})
	return res, err
}

// answer is what fetcher who returns, as a table (the environment function AnswerOf of KeyLife.tla).
// Caller holds w.mu.
func (w *world) answer(who string, asked []int) (Table, bool) {
	if who == "d" {
		if !w.dirUp {
			return nil, false
		}
		return w.truth(), true
	}
	if !w.notUp {
		return nil, false
	}
	if w.nmode == "match" {
		hit := false
		for _, k := range asked {
			if k >= 1 && k <= w.nk && w.snap[k-1].present() {
				hit = true
			}
		}
		if !hit {
			return emptyTable(w.nk), true
		}
	}
	return w.snap.clone(), true
}

// stubFetcher (-mode stub): a scripted KeyFetcher that returns the answer table directly.
type stubFetcher struct {
	w   *world
	who string
}

func (f *stubFetcher) FetcherName() string { return "scripted fetcher " + f.who }

func (f *stubFetcher) FetchKeys(_ context.Context, reqs map[gmsl.PublicKeyLookupRequest]spec.Timestamp) (map[gmsl.PublicKeyLookupRequest]gmsl.PublicKeyLookupResult, error) {
	w := f.w
	w.mu.Lock()
	defer w.mu.Unlock()
	tab, up := w.answer(f.who, askedKids(reqs, w.nk))
	if !up {
		return nil, errScripted
	}
	out := map[gmsl.PublicKeyLookupRequest]gmsl.PublicKeyLookupResult{}
	for i, e := range tab {
		if e.present() {
			out[gmsl.PublicKeyLookupRequest{ServerName: originName, KeyID: keyID(i + 1)}] = w.result(i+1, e)
		}
	}
	return out, nil
}

// scriptedClient is the federation client underneath the real DirectKeyFetcher / PerspectiveKeyFetcher.
type scriptedClient struct{ w *world }

// response builds a really signed key response of the origin saying what the table says: the current
// key under verify_keys with valid_until_ts (signed with it), retired keys under old_verify_keys.
func (w *world) response(tab Table, notarised bool) gmsl.ServerKeys {
	verify := map[string]interface{}{}
	old := map[string]interface{}{}
	vu := spec.Timestamp(0)
	var signers []int
	for i, e := range tab {
		k := i + 1
		switch {
		case !e.present():
		case e.expired():
			old[string(keyID(k))] = map[string]interface{}{
				"key":        spec.Base64Bytes(keyFor(w.seed, "origin", k).pub),
				"expired_ts": w.ms(e.Exp),
			}
		default:
			verify[string(keyID(k))] = map[string]interface{}{"key": spec.Base64Bytes(keyFor(w.seed, "origin", k).pub)}
			vu = w.ms(e.VU)
			signers = append(signers, k)
		}
	}
	msg, err := json.Marshal(map[string]interface{}{
		"server_name":     string(originName),
		"valid_until_ts":  vu,
		"verify_keys":     verify,
		"old_verify_keys": old,
	})
	if err != nil {
		panic(err)
	}
	for _, k := range signers {
		if msg, err = gmsl.SignJSON(string(originName), keyID(k), keyFor(w.seed, "origin", k).priv, msg); err != nil {
			panic(err)
		}
	}
	if notarised {
		if msg, err = gmsl.SignJSON(string(notaryName), notaryKey, keyFor(w.seed, "notary", 1).priv, msg); err != nil {
			panic(err)
		}
	}
	var sk gmsl.ServerKeys
	if err = json.Unmarshal(msg, &sk); err != nil {
		panic(err)
	}
	return sk
}

func (c *scriptedClient) GetServerKeys(_ context.Context, s spec.ServerName) (gmsl.ServerKeys, error) {
	w := c.w
	w.mu.Lock()
	defer w.mu.Unlock()
	w.obs.Client = append(w.obs.Client, "get:"+string(s))
	if s != originName {
		return gmsl.ServerKeys{}, errScripted
	}
	tab, up := w.answer("d", nil)
	if !up {
		return gmsl.ServerKeys{}, errScripted
	}
	return w.response(tab, false), nil
}

func (c *scriptedClient) LookupServerKeys(_ context.Context, s spec.ServerName, reqs map[gmsl.PublicKeyLookupRequest]spec.Timestamp) ([]gmsl.ServerKeys, error) {
	w := c.w
	w.mu.Lock()
	defer w.mu.Unlock()
	w.obs.Client = append(w.obs.Client, "query:"+string(s))
	switch s {
	case notaryName:
		tab, up := w.answer("n", askedKids(reqs, w.nk))
		if !up {
			return nil, errScripted
		}
		if !tab.any() {
			return []gmsl.ServerKeys{}, nil
		}
		return []gmsl.ServerKeys{w.response(tab, true)}, nil
	case originName:
		// the direct fetcher's second attempt (the origin's own /key/v2/query): part of the same outage
		tab, up := w.answer("d", nil)
		if !up {
			return nil, errScripted
		}
		return []gmsl.ServerKeys{w.response(tab, false)}, nil
	}
	return nil, errScripted
}

// keyRing builds the ONE key ring of a behaviour.
func (w *world) keyRing(order []string, stub bool) *gmsl.KeyRing {
	kr := &gmsl.KeyRing{KeyDatabase: &dbStub{w}}
	cl := &scriptedClient{w}
	for _, who := range order {
		var f gmsl.KeyFetcher
		switch {
		case stub:
			f = &stubFetcher{w, who}
		case who == "d":
			f = &gmsl.DirectKeyFetcher{Client: cl, IsLocalServerName: func(spec.ServerName) bool { return false }}
		default:
			f = &gmsl.PerspectiveKeyFetcher{
				PerspectiveServerName: notaryName,
				PerspectiveServerKeys: map[gmsl.KeyID]ed25519.PublicKey{notaryKey: keyFor(w.seed, "notary", 1).pub},
				Client:                cl,
			}
		}
		kr.KeyFetchers = append(kr.KeyFetchers, &spy{w, who, f})
	}
	return kr
}

// message realises a request: an event-like object of the origin, timestamped ts, carrying one signature
// under key ID k - made with the key material of k ("good") or with a key the origin never had ("bad").
func (w *world) message(i, k int, ts int64, sig string) []byte {
	msg := []byte(fmt.Sprintf(`{"type":"m.test","origin":%q,"origin_server_ts":%d,"content":{"n":%d}}`,
		string(originName), w.ms(ts), i))
	who := "origin"
	if sig != "good" {
		who = "attacker"
	}
	out, err := gmsl.SignJSON(string(originName), keyID(k), keyFor(w.seed, who, k).priv, msg)
	if err != nil {
		panic(err)
	}
	return out
}
