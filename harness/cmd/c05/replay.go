package main

// spec -> code: one Redaction_gen.tla record (or a probe built from a rejected trace line) is realised as a
// concrete event and run through IRoomVersion.RedactEventJSON and, for well-formed PDUs, PDU.Redact() and the
// signature checks.  Everything the property states is compared with what the specification derived.

import (
	"bytes"
	"context"
	"encoding/json"
	"fmt"
	"hash/fnv"
	"math/big"
	"reflect"
	"sort"
	"strings"

	gmsl "github.com/matrix-org/gomatrixserverlib"
	"verifharness/hx"
)

func decodeObj(b []byte) (map[string]interface{}, error) {
	d := json.NewDecoder(bytes.NewReader(b))
	d.UseNumber()
	var m map[string]interface{}
	if err := d.Decode(&m); err != nil {
		return nil, err
	}
	if d.More() {
		return nil, fmt.Errorf("trailing data after JSON object")
	}
	return m, nil
}

// sameJSON compares decoded JSON values; numbers are compared by value, not by spelling.
func sameJSON(a, b interface{}) bool {
	switch x := a.(type) {
	case json.Number:
		y, ok := b.(json.Number)
		if !ok {
			return false
		}
		if x == y {
			return true
		}
		rx, ok1 := new(big.Rat).SetString(string(x))
		ry, ok2 := new(big.Rat).SetString(string(y))
		return ok1 && ok2 && rx.Cmp(ry) == 0
	case map[string]interface{}:
		y, ok := b.(map[string]interface{})
		if !ok || len(x) != len(y) {
			return false
		}
		for k, v := range x {
			w, ok := y[k]
			if !ok || !sameJSON(v, w) {
				return false
			}
		}
		return true
	case []interface{}:
		y, ok := b.([]interface{})
		if !ok || len(x) != len(y) {
			return false
		}
		for i := range x {
			if !sameJSON(x[i], y[i]) {
				return false
			}
		}
		return true
	}
	return reflect.DeepEqual(a, b)
}

func keysOf(m map[string]interface{}) []string {
	out := make([]string, 0, len(m))
	for k := range m {
		out = append(out, k)
	}
	sort.Strings(out)
	return out
}

func setOf(xs []string) map[string]bool {
	s := map[string]bool{}
	for _, x := range xs {
		s[x] = true
	}
	return s
}

func sorted(xs []string) []string { o := append([]string(nil), xs...); sort.Strings(o); return o }

// firstDiff returns the first key (sorted) on which the two sets differ and whether the model keeps it.
func firstDiff(want, got map[string]bool) (string, bool, bool) {
	var all []string
	for k := range want {
		all = append(all, k)
	}
	for k := range got {
		if !want[k] {
			all = append(all, k)
		}
	}
	sort.Strings(all)
	for _, k := range all {
		if want[k] != got[k] {
			return k, want[k], true
		}
	}
	return "", false, false
}

// listedTop: the top-level keys the redaction algorithm lists (Redaction.tla: TopKeep); used only to tell the open
// case-variant finding from other keys that appear from nowhere.  Probes carry no algorithm number: any listed key.
func listedTop(algo int, k string) bool {
	switch k {
	case "origin", "membership", "prev_state":
		return algo != 5
	case "type", "content":
		return true
	}
	for _, x := range oldTopKeys {
		if x == k {
			return true
		}
	}
	return false
}

func arrow(modelKeeps bool) string {
	if modelKeeps {
		return "kept->dropped"
	}
	return "dropped->kept"
}

func typeClass(t string) string {
	switch t {
	case "m.room.member", "m.room.create", "m.room.join_rules", "m.room.power_levels",
		"m.room.history_visibility", "m.room.aliases", "m.room.redaction":
		return t
	}
	return "other"
}

func fail(key, what string, want, got interface{}) *hx.Result {
	return &hx.Result{OK: false, Key: key, What: what, Want: want, Got: got}
}

// projection of a redacted event onto the abstract vocabulary
type observed struct {
	Top    []string `json:"top"`
	Con    []string `json:"con"`
	Tpi    []string `json:"tpi"`
	TpiObj bool     `json:"tpiobj"`
}

func observe(red map[string]interface{}) (observed, error) {
	o := observed{Top: keysOf(red), Con: []string{}, Tpi: []string{}}
	c, ok := red["content"]
	if !ok {
		return o, nil
	}
	cm, ok := c.(map[string]interface{})
	if !ok {
		return o, fmt.Errorf("content of the redacted event is not an object")
	}
	o.Con = keysOf(cm)
	if t, ok := cm[nestedKey].(map[string]interface{}); ok {
		o.TpiObj = true
		o.Tpi = keysOf(t)
	}
	return o, nil
}

// compareWithModel checks one redacted JSON against the key sets of the specification and the original values.
func compareWithModel(r *rec, api string, orig, red map[string]interface{}) *hx.Result {
	if r.Fam == "probe" && len(r.KTop) == 0 {
		// a failure while recording, re-executed: there is no expectation to compare with (every expectation has
		// `type` and `content`); errors, panics and values of earlier calls are what such a probe looks for
		return nil
	}
	tc := typeClass(r.Type)
	obs, err := observe(red)
	if err != nil {
		return fail("C05/shape/content-not-object", api+": "+err.Error(), nil, nil)
	}
	// nothing may be invented
	for _, k := range obs.Top {
		if _, ok := orig[k]; !ok {
			// the open finding is exactly: the original spells this key - a key the algorithm of the version lists -
			// with other letter case; anything else that appears from nowhere is keyed differently (and is not covered
			// by the finding)
			how := "invented"
			for ok := range orig {
				if ok != k && strings.EqualFold(ok, k) && listedTop(r.Algo, k) {
					how = "case-variant-promoted"
				}
			}
			return fail("C05/top/"+strings.ToLower(k)+":"+how,
				fmt.Sprintf("%s (room version %s): the redacted event has the top-level key %q which the original event %v does not have",
					api, r.Ver, k, keysOf(orig)), keysOf(orig), obs.Top)
		}
	}
	// top-level key set
	if k, keeps, diff := firstDiff(setOf(r.KTop), setOf(obs.Top)); diff {
		return fail("C05/top/"+k+":"+arrow(keeps),
			fmt.Sprintf("%s (room version %s, algorithm %d): top-level keys after redaction differ at %q; the algorithm keeps %v, the library kept %v",
				api, r.Ver, r.Algo, k, sorted(r.KTop), obs.Top), sorted(r.KTop), obs.Top)
	}
	// content key set
	want := setOf(r.KCon)
	got := setOf(obs.Con)
	if k, keeps, diff := firstDiff(want, got); diff {
		name := k
		if k == nestedKey && keeps {
			name = nestedKey + ".signed"
		}
		return fail("C05/content/"+tc+"/"+name+":"+arrow(keeps),
			fmt.Sprintf("%s (room version %s, algorithm %d, %s): content keys after redaction differ at %q; the algorithm keeps %v, the library kept %v",
				api, r.Ver, r.Algo, r.Type, name, sorted(r.KCon), obs.Con), sorted(r.KCon), obs.Con)
	}
	// nested keys
	if want[nestedKey] && r.TpiObj {
		if !obs.TpiObj {
			return fail("C05/content/"+tc+"/"+nestedKey+":object->other", api+": third_party_invite is no longer an object", nil, nil)
		}
		if k, keeps, diff := firstDiff(setOf(r.KTpi), setOf(obs.Tpi)); diff {
			return fail("C05/content/"+tc+"/"+nestedKey+"."+k+":"+arrow(keeps),
				fmt.Sprintf("%s (room version %s): keys of content.third_party_invite after redaction: the algorithm keeps %v, the library kept %v",
					api, r.Ver, sorted(r.KTpi), obs.Tpi), sorted(r.KTpi), obs.Tpi)
		}
	}
	// values
	for _, k := range r.KTop {
		if k == "content" {
			continue
		}
		if !sameJSON(orig[k], red[k]) {
			for ok, ov := range orig {
				// the open finding again: a key spelt in another letter case, coming later in the text, supplies the value
				if ok != k && strings.EqualFold(ok, k) && sameJSON(ov, red[k]) {
					return fail("C05/top/"+k+":case-variant-promoted",
						fmt.Sprintf("%s (room version %s): the kept top-level key %q has the value of the key %q of the original event", api, r.Ver, k, ok), orig[k], red[k])
				}
			}
			return fail("C05/value/top/"+k, fmt.Sprintf("%s: value of kept top-level key %q changed", api, k), orig[k], red[k])
		}
	}
	oc, _ := orig["content"].(map[string]interface{})
	rc, _ := red["content"].(map[string]interface{})
	for _, k := range r.KCon {
		if ot, isObj := oc[k].(map[string]interface{}); k == nestedKey && isObj {
			rt, _ := rc[k].(map[string]interface{})
			for _, nk := range r.KTpi {
				if !sameJSON(ot[nk], rt[nk]) {
					return fail("C05/value/content/"+tc+"/"+nestedKey+"."+nk, api+": value of kept nested key changed", ot[nk], rt[nk])
				}
			}
			continue
		}
		if !sameJSON(oc[k], rc[k]) {
			return fail("C05/value/content/"+tc+"/"+k, fmt.Sprintf("%s: value of kept content key %q changed", api, k), oc[k], rc[k])
		}
	}
	// type, sender, room, state key (part of the above; stated separately as in the property)
	for _, k := range []string{"type", "sender", "room_id", "state_key"} {
		ov, oh := orig[k]
		rv, rh := red[k]
		if oh != rh || (oh && !sameJSON(ov, rv)) {
			return fail("C05/core/"+k, fmt.Sprintf("%s: %s changed by redaction", api, k), ov, rv)
		}
	}
	return nil
}

func replayOne(seed int64, i int, raw json.RawMessage) hx.Result {
	var r rec
	if err := json.Unmarshal(raw, &r); err != nil {
		panic(fmt.Sprintf("harness: bad record: %v", err))
	}
	// (the <U+XXXX> notation of the vocabulary, in the key sets as in the class maps)
	for _, xs := range [][]string{r.KTop, r.KCon, r.KTpi} {
		for j := range xs {
			xs[j] = denote(xs[j])
		}
	}
	res := runScenario(&r, newHistory(&r, i, seed))
	if res == nil && r.Fam == "probe" {
		// a probe (a recorded call re-executed): once after each earlier call of the model
		for _, c := range allCalls {
			h := newHistory(&r, i, seed)
			h.fixed = []histCall{c}
			if res = runScenario(&r, h); res != nil {
				break
			}
		}
	}
	if res != nil {
		res.NT = ntOf(&r)
		return *res
	}
	return hx.Result{OK: true, NT: ntOf(&r)}
}

func ntOf(r *rec) string {
	kind := ""
	if r.Kind == "route" {
		// what is distinct about a route scenario: entry point, spelling, the operations
		kind = "|" + r.Entry + "/" + r.Sp + ">" + strings.Join(r.Steps, ">")
	}
	if r.Kind == "hist" {
		// what is distinct about a history scenario is the history
		kind = "|after"
		for _, c := range r.Hist {
			kind += fmt.Sprintf(":%s/%d/%s/%s", c.Entry, c.Algo, c.Outcome, c.PType)
		}
	}
	return fmt.Sprintf("%s|algo%d|%s|top=%s|con=%s|tpi=%s%s", r.Fam, r.Algo, typeClass(r.Type),
		strings.Join(sorted(r.KTop), ","), strings.Join(sorted(r.KCon), ","), strings.Join(sorted(r.KTpi), ","), kind)
}

func (f *hxFailure) result() *hx.Result {
	if f == nil {
		return nil
	}
	return fail(f.key, f.what, f.want, f.got)
}

func runScenario(r *rec, h *history) *hx.Result {
	ver, err := gmsl.GetRoomVersion(gmsl.RoomVersion(r.Ver))
	if err != nil {
		return fail("C05/version/unregistered", "room version "+r.Ver+" is not registered", nil, nil)
	}
	var event []byte
	var built gmsl.PDU
	switch {
	case r.Kind == "route":
		return runRoute(r, h)
	case r.Raw != "":
		event = []byte(r.Raw)
	case r.Fam == "pdu":
		event, built = pduEvent(r)
	default:
		// the same abstract event in every spelling
		for sp := 0; sp < spellings; sp++ {
			if res := checkJSON(r, ver, rawEvent(r, sp), fmt.Sprintf("RedactEventJSON[spelling %d]", sp), h); res != nil {
				return res
			}
		}
		return nil
	}
	orig, err := decodeObj(event)
	if err != nil {
		panic(fmt.Sprintf("harness: composed event is not JSON: %v", err))
	}

	// ---- IRoomVersion.RedactEventJSON -------------------------------------------------------------
	if r.API != "pdu" {
		if res := checkJSON(r, ver, event, "RedactEventJSON", h); res != nil {
			return res
		}
	}
	if r.Fam == "probe" && r.API != "pdu" {
		return nil
	}

	// ---- PDU.Redact() ------------------------------------------------------------------------------------
	p, err := ver.NewEventFromTrustedJSON(event, false)
	if err != nil {
		panic(fmt.Sprintf("harness: event does not parse as trusted JSON: %v", err))
	}
	type ident struct {
		Type, Sender, Room, ID string
		StateKey               *string
	}
	identOf := func(p gmsl.PDU) ident {
		return ident{p.Type(), string(p.SenderID()), p.RoomID().String(), p.EventID(), p.StateKey()}
	}
	before := identOf(p)
	redactedBySigning := append([]byte(nil), event...)
	h.before()
	p.Redact()
	if res := h.leaked("PDU.Redact", p.JSON()).result(); res != nil {
		return res
	}
	if !p.Redacted() {
		return fail("C05/pdu/not-marked-redacted", "PDU.Redacted() is false after Redact()", true, false)
	}
	after := identOf(p)
	pj := append([]byte(nil), p.JSON()...)
	red, err := decodeObj(pj)
	if err != nil {
		return fail("C05/pdu/invalid-json", "JSON() after Redact() is not a JSON object: "+err.Error(), nil, string(pj))
	}
	if res := compareWithModel(r, "PDU.Redact", orig, red); res != nil {
		return res
	}
	var content map[string]interface{}
	if content, err = decodeObj(p.Content()); err != nil || !sameJSON(content, red["content"]) {
		return fail("C05/pdu/content-accessor", "Content() after Redact() differs from the content of JSON()", red["content"], string(p.Content()))
	}
	if before.Type != after.Type {
		return fail("C05/core/type", "Type() changed by Redact()", before.Type, after.Type)
	}
	if before.Sender != after.Sender {
		return fail("C05/core/sender", "SenderID() changed by Redact()", before.Sender, after.Sender)
	}
	if before.Room != after.Room {
		return fail("C05/core/room_id", "RoomID() changed by Redact()", before.Room, after.Room)
	}
	if (before.StateKey == nil) != (after.StateKey == nil) || (before.StateKey != nil && *before.StateKey != *after.StateKey) {
		return fail("C05/core/state_key", "StateKey() changed by Redact()", before.StateKey, after.StateKey)
	}
	if before.ID != after.ID {
		return fail("C05/eventid/changed", fmt.Sprintf("EventID() changed by Redact() (room version %s)", r.Ver), before.ID, after.ID)
	}
	p.Redact()
	if !bytes.Equal(p.JSON(), pj) || p.EventID() != after.ID {
		return fail("C05/idempotent/pdu", "second Redact() changed the event", string(pj), string(p.JSON()))
	}
	// a fresh parse of the redacted JSON has the same identity (v3+: the ID is the hash of the redacted form)
	if !isFormatV1(r.Ver) {
		q, err := ver.NewEventFromTrustedJSON(pj, true)
		if err != nil {
			return fail("C05/pdu/redacted-does-not-parse", "redacted JSON does not parse: "+err.Error(), nil, string(pj))
		}
		if q.EventID() != before.ID {
			return fail("C05/eventid/changed", fmt.Sprintf("event ID of the redacted JSON differs from the original's (room version %s)", r.Ver), before.ID, q.EventID())
		}
	}

	// the same event received over federation (untrusted parse: strips unsigned / age_ts, checks the content hash)
	// (not for a room version 3+ event whose JSON has an event_id member: receipt strips the member, which is part of
	// what the content hash and the trusted parse's event ID cover)
	_, idMember := orig["event_id"]
	h.before()
	if u, err := ver.NewEventFromUntrustedJSON(event); err == nil && (isFormatV1(r.Ver) || !idMember) {
		uid := u.EventID()
		if !isFormatV1(r.Ver) && uid != before.ID {
			return fail("C05/eventid/untrusted-differs", fmt.Sprintf("event ID after NewEventFromUntrustedJSON differs from the trusted parse (room version %s)", r.Ver), before.ID, uid)
		}
		u.Redact()
		if u.EventID() != uid {
			return fail("C05/eventid/changed", fmt.Sprintf("EventID() of an event parsed as untrusted JSON changed by Redact() (room version %s)", r.Ver), uid, u.EventID())
		}
		if res := h.leaked("NewEventFromUntrustedJSON + PDU.Redact", u.JSON()).result(); res != nil {
			return res
		}
		ur, err := decodeObj(u.JSON())
		if err != nil {
			return fail("C05/pdu/invalid-json", "JSON() after Redact() is not a JSON object: "+err.Error(), nil, string(u.JSON()))
		}
		if !sameJSON(ur, red) {
			return fail("C05/pdu/untrusted-redacts-differently", "Redact() of the event parsed as untrusted JSON differs from Redact() of the trusted parse", string(pj), string(u.JSON()))
		}
	}

	// ---- sibling entry points, and state carried by the event object -----------------------------------------
	// (every scenario with at most one optional key - the per-version families - and a fifth of the others,
	// chosen by a hash of the scenario so that a re-execution chooses alike)
	if optionalKeys(r) <= 1 || scenarioHash(r)%5 == 0 {
		if res := siblings(r, ver, event, before.ID, pj, red); res != nil {
			return res
		}
		if built != nil {
			if res := builtDirectly(r, ver, built); res != nil {
				return res
			}
		}
	}

	// ---- signatures ----------------------------------------------------------------------------------------
	if r.Raw != "" {
		return nil // probes from recorded traces carry no keys
	}
	origRed, err := ver.RedactEventJSON(redactedBySigning)
	if err != nil {
		return fail("C05/json/error", "RedactEventJSON failed: "+err.Error(), nil, nil)
	}
	signers := signersFor(r.Ver)
	for n, s := range signers {
		role := []string{"sender-server", "other-server", "sender-server-second-key"}[n]
		if err := gmsl.VerifyJSON(s.name, s.key, s.pub, origRed); err != nil {
			// signing is "redact, then sign": a signature that does not verify this way never verified
			return fail("C05/sig/"+role+"/never-verified", "signature made by PDU.Sign does not verify on the original event: "+err.Error(), nil, nil)
		}
		if err := gmsl.VerifyJSON(s.name, s.key, s.pub, pj); err != nil {
			return fail("C05/sig/"+role+"/lost-by-redaction", fmt.Sprintf("signature of %s verified on the original event but not on the redacted one (room version %s): %v", s.name, r.Ver, err), nil, nil)
		}
	}
	verifier := scriptedVerifier{signers}
	op, err := ver.NewEventFromTrustedJSON(event, false)
	if err != nil {
		panic(err)
	}
	// the batch variant
	if errs := gmsl.VerifyAllEventSignatures(context.Background(), []gmsl.PDU{op, p, op}, verifier, identityQuerier); len(errs) != 3 {
		return fail("C05/sig/VerifyAllEventSignatures/result-count", "VerifyAllEventSignatures does not answer once per event", 3, len(errs))
	} else if errs[0] == nil && (errs[1] != nil || errs[2] != nil) {
		return fail("C05/sig/VerifyAllEventSignatures/lost-by-redaction", fmt.Sprintf("VerifyAllEventSignatures accepts the original event and answers %v / %v for the redacted one and the original again", errs[1], errs[2]), nil, nil)
	}
	if e1 := gmsl.VerifyEventSignatures(context.Background(), op, verifier, identityQuerier); e1 == nil {
		if e2 := gmsl.VerifyEventSignatures(context.Background(), p, verifier, identityQuerier); e2 != nil {
			return fail("C05/sig/VerifyEventSignatures/lost-by-redaction", "VerifyEventSignatures accepts the original event and rejects the redacted one: "+e2.Error(), nil, nil)
		}
	}
	return nil
}

// optionalKeys counts the keys of the scenario beyond what every PDU has.
func optionalKeys(r *rec) int {
	n := len(r.Con)
	for k := range r.Top {
		switch k {
		case "type", "content", "sender", "room_id", "depth", "prev_events", "auth_events", "origin_server_ts", "hashes", "signatures", "event_id":
		default:
			n++
		}
	}
	return n
}

func scenarioHash(r *rec) uint32 {
	h := fnv.New32a()
	h.Write([]byte(r.Raw))
	h.Write([]byte(ntOf(r)))
	for _, k := range sorted(mapKeys(r.Top)) {
		h.Write([]byte(k + "=" + r.Top[k] + ";"))
	}
	for _, k := range sorted(mapKeys(r.Con)) {
		h.Write([]byte(k + "=" + r.Con[k] + ";"))
	}
	return h.Sum32()
}

// siblings drives the event through the other constructors and call orders: the redacted form, the identity and
// the event ID must be the ones of the plain trusted parse (wantID, pj / red).
func siblings(r *rec, ver gmsl.IRoomVersion, event []byte, wantID string, pj []byte, red map[string]interface{}) *hx.Result {
	same := func(how string, q gmsl.PDU) *hx.Result {
		qj, err := decodeObj(q.JSON())
		if err != nil {
			return fail("C05/pdu/invalid-json", how+": JSON() is not a JSON object: "+err.Error(), nil, string(q.JSON()))
		}
		if !sameJSON(qj, red) {
			return fail("C05/pdu/"+how+"/redacts-differently", fmt.Sprintf("%s (room version %s): redacted form differs from Redact() of the trusted parse", how, r.Ver), string(pj), string(q.JSON()))
		}
		if !q.Redacted() {
			return fail("C05/pdu/not-marked-redacted", how+": Redacted() is false after Redact()", true, false)
		}
		if q.EventID() != wantID {
			return fail("C05/eventid/changed", fmt.Sprintf("%s (room version %s): event ID after Redact() differs from the original's", how, r.Ver), wantID, q.EventID())
		}
		return nil
	}
	// Redact() before the event ID was ever asked for (the ID is computed lazily from the JSON)
	q, err := ver.NewEventFromTrustedJSON(event, false)
	if err != nil {
		panic(err)
	}
	q.Redact()
	if res := same("redact-before-first-EventID", q); res != nil {
		return res
	}
	// constructor that is told the event ID
	if q, err = ver.NewEventFromTrustedJSONWithEventID(wantID, event, false); err != nil {
		return fail("C05/pdu/with-event-id/error", "NewEventFromTrustedJSONWithEventID: "+err.Error(), nil, nil)
	}
	q.Redact()
	if res := same("NewEventFromTrustedJSONWithEventID", q); res != nil {
		return res
	}
	// headered JSON
	o, err := ver.NewEventFromTrustedJSON(event, false)
	if err != nil {
		panic(err)
	}
	hj, err := o.ToHeaderedJSON()
	if err != nil {
		return fail("C05/pdu/headered/error", "ToHeaderedJSON: "+err.Error(), nil, nil)
	}
	if q, err = gmsl.NewEventFromHeaderedJSON(hj, false); err != nil {
		return fail("C05/pdu/headered/error", "NewEventFromHeaderedJSON: "+err.Error(), nil, nil)
	}
	if q.EventID() != wantID {
		return fail("C05/eventid/headered-differs", "event ID after the headered round trip differs", wantID, q.EventID())
	}
	q.Redact()
	if res := same("NewEventFromHeaderedJSON", q); res != nil {
		return res
	}
	// an event that was given unsigned data after parsing
	if q, err = o.SetUnsigned(map[string]interface{}{"age": 0, "prev_content": map[string]string{"membership": "<leave>"}}); err != nil {
		return fail("C05/pdu/set-unsigned/error", "SetUnsigned: "+err.Error(), nil, nil)
	}
	q.Redact()
	if res := same("SetUnsigned-then-Redact", q); res != nil {
		return res
	}
	// the same event in other spellings of its JSON text (trusted JSON need not be canonical): same event ID before
	// and after Redact(), same redacted form
	if r.Raw == "" {
		for _, sp := range []string{"rev", "esc"} {
			if q, err = ver.NewEventFromTrustedJSON(respell(append([]byte(nil), event...), sp), false); err != nil {
				return fail("C05/pdu/spelling/error", fmt.Sprintf("NewEventFromTrustedJSON refuses the event spelt %q: %v", sp, err), nil, nil)
			}
			if scenarioHash(r)%2 == 0 {
				if q.EventID() != wantID {
					return fail("C05/eventid/spelling-differs", fmt.Sprintf("event ID of the event spelt %q differs (room version %s)", sp, r.Ver), wantID, q.EventID())
				}
			}
			q.Redact()
			if res := same("trusted-JSON-spelt-"+sp, q); res != nil {
				return res
			}
		}
	}
	// the already redacted JSON, parsed as an ordinary event and as one flagged redacted
	for _, flag := range []bool{false, true} {
		if q, err = ver.NewEventFromTrustedJSON(pj, flag); err != nil {
			return fail("C05/pdu/redacted-does-not-parse", "redacted JSON does not parse: "+err.Error(), nil, string(pj))
		}
		q.Redact()
		q.Redact()
		if flag {
			if !bytes.Equal(q.JSON(), pj) {
				return fail("C05/idempotent/pdu", "Redact() on an event parsed as already redacted changed its JSON", string(pj), string(q.JSON()))
			}
			if q.EventID() != wantID {
				return fail("C05/eventid/changed", "event ID of the redacted JSON parsed as redacted differs from the original's", wantID, q.EventID())
			}
		} else if res := same("Redact-of-redacted-JSON", q); res != nil {
			return res
		}
	}
	// RedactEventJSON of what Redact() produced
	rj, err := ver.RedactEventJSON(pj)
	if err != nil {
		return fail("C05/json/error", "RedactEventJSON of the redacted PDU failed: "+err.Error(), nil, nil)
	}
	if rr, err := decodeObj(rj); err != nil || !sameJSON(rr, red) {
		return fail("C05/idempotent/pdu-then-json", "RedactEventJSON changes the JSON of a PDU redacted with Redact()", string(pj), string(rj))
	}
	return nil
}

// builtDirectly redacts the event exactly as EventBuilder.Build returned it (origin, prev_state, one signature).
func builtDirectly(r *rec, ver gmsl.IRoomVersion, built gmsl.PDU) *hx.Result {
	bj := append([]byte(nil), built.JSON()...)
	id, typ, sender, roomID, sk := built.EventID(), built.Type(), built.SenderID(), built.RoomID().String(), built.StateKey()
	wantJSON, err := ver.RedactEventJSON(bj)
	if err != nil {
		return fail("C05/json/error", "RedactEventJSON of the built event failed: "+err.Error(), nil, nil)
	}
	want, err := decodeObj(wantJSON)
	if err != nil {
		return fail("C05/json/invalid-output", "RedactEventJSON output is not a JSON object", nil, string(wantJSON))
	}
	built.Redact()
	got, err := decodeObj(built.JSON())
	if err != nil || !sameJSON(want, got) {
		return fail("C05/pdu/built/redacts-differently", fmt.Sprintf("Redact() of the event returned by EventBuilder.Build differs from RedactEventJSON of its JSON (room version %s)", r.Ver), string(wantJSON), string(built.JSON()))
	}
	if built.EventID() != id {
		return fail("C05/eventid/changed", fmt.Sprintf("EventID() of the event returned by EventBuilder.Build changed by Redact() (room version %s)", r.Ver), id, built.EventID())
	}
	sk2 := built.StateKey()
	if built.Type() != typ || built.SenderID() != sender || built.RoomID().String() != roomID || (sk == nil) != (sk2 == nil) || (sk != nil && *sk != *sk2) {
		return fail("C05/core/built", "type, sender, room or state key of the built event changed by Redact()", nil, nil)
	}
	first := signersFor(r.Ver)[0]
	bred, err := ver.RedactEventJSON(bj)
	if err == nil && gmsl.VerifyJSON(first.name, first.key, first.pub, bred) == nil {
		if err := gmsl.VerifyJSON(first.name, first.key, first.pub, built.JSON()); err != nil {
			return fail("C05/sig/sender-server/lost-by-redaction", "signature made by EventBuilder.Build verified on the built event but not on its redacted form: "+err.Error(), nil, nil)
		}
	} else {
		return fail("C05/sig/sender-server/never-verified", "signature made by EventBuilder.Build does not verify", nil, nil)
	}
	return nil
}

// checkJSON runs IRoomVersion.RedactEventJSON on one event text: key sets, values, idempotence.
func checkJSON(r *rec, ver gmsl.IRoomVersion, event []byte, api string, h *history) *hx.Result {
	orig, err := decodeObj(event)
	if err != nil {
		panic(fmt.Sprintf("harness: composed event is not JSON: %v: %s", err, event))
	}
	if r.Raw == "" {
		// the concretiser must realise exactly the abstract event
		if !reflect.DeepEqual(keysOf(orig), sorted(mapKeys(r.Top))) {
			panic(fmt.Sprintf("harness: composed top-level keys %v differ from the scenario's %v", keysOf(orig), sorted(mapKeys(r.Top))))
		}
		if oc, _ := orig["content"].(map[string]interface{}); strings.Join(keysOf(oc), "\x00") != strings.Join(sorted(mapKeys(r.Con)), "\x00") {
			panic(fmt.Sprintf("harness: composed content keys %v differ from the scenario's %v", keysOf(oc), sorted(mapKeys(r.Con))))
		}
	}
	input := append([]byte(nil), event...)
	first := h == nil || h.stage == 0
	h.before()
	redJSON, err := ver.RedactEventJSON(event)
	if err != nil {
		return fail("C05/json/error", api+" failed: "+err.Error(), nil, nil)
	}
	if res := h.leaked(api, redJSON).result(); res != nil {
		return res
	}
	if !bytes.Equal(input, event) {
		return fail("C05/json/input-modified", api+" modified its input buffer", string(input), string(event))
	}
	red, err := decodeObj(redJSON)
	if err != nil {
		return fail("C05/json/invalid-output", api+" output is not a JSON object: "+err.Error(), nil, string(redJSON))
	}
	if res := compareWithModel(r, api, orig, red); res != nil {
		return res
	}
	if first || r.Kind == "hist" {
		h.before()
	}
	again, err := ver.RedactEventJSON(redJSON)
	if err != nil {
		return fail("C05/idempotent/error", "second RedactEventJSON failed: "+err.Error(), nil, nil)
	}
	if res := h.leaked(api+", applied to its own result", again).result(); res != nil {
		return res
	}
	red2, err := decodeObj(again)
	if err != nil || !sameJSON(red, red2) {
		return fail("C05/idempotent/"+typeClass(r.Type), "redacting the redacted event changed it", string(redJSON), string(again))
	}
	if !bytes.Equal(gmsl.CanonicalJSONAssumeValid(again), gmsl.CanonicalJSONAssumeValid(redJSON)) {
		return fail("C05/idempotent/"+typeClass(r.Type)+"/bytes", "canonical form of the twice redacted event differs", string(redJSON), string(again))
	}
	return nil
}

func mapKeys(m classMap) []string {
	out := make([]string, 0, len(m))
	for k := range m {
		out = append(out, k)
	}
	return out
}
