package main

// code -> spec: a seeded driver composes messy events (random subsets of the known keys, random extra keys
// including keys that differ from a protected key only in case, random value classes, random nesting of
// third_party_invite), runs the real RedactEventJSON / PDU.Redact() and logs the abstract description of the
// input together with the key sets observed in the output.  spec/Redaction_trace.tla recomputes the kept key
// sets of every line.

import (
	"encoding/json"
	"fmt"
	"math/rand"
	"sort"

	gmsl "github.com/matrix-org/gomatrixserverlib"
	"verifharness/hx"
)

type traceLine struct {
	I      int      `json:"i"`
	Ver    string   `json:"ver"`
	Type   string   `json:"type"`
	API    string   `json:"api"`
	Top    []string `json:"top"`
	Con    []string `json:"con"`
	TpiObj bool     `json:"tpiobj"`
	Tpi    []string `json:"tpi"`
	Got    observed `json:"got"`
	Raw    string   `json:"raw"`
}

var protectedTypes = []string{"m.room.member", "m.room.create", "m.room.join_rules", "m.room.power_levels",
	"m.room.history_visibility", "m.room.aliases", "m.room.redaction"}

var oldTopKeys = []string{"event_id", "room_id", "sender", "state_key", "hashes", "signatures", "depth",
	"prev_events", "prev_state", "auth_events", "origin", "origin_server_ts", "membership"}

var extraTopKeys = []string{"unsigned", "age_ts", "redacts", "foo", "outlier", "destinations", "m.relates_to",
	"origin ", "content.membership"}

// keys that differ from a protected key only in case, or only by a letter that Unicode case folding equates with
// s / k (U+017F long s, U+212A Kelvin sign: encoding/json matches such names to the protected key's struct field);
// one event in ~16
var caseVariantTopKeys = []string{"Depth", "Origin", "MEMBERSHIP", "Prev_State", "Hashes", "Event_ID", "ROOM_ID",
	"\u017fender", "\u017ftate_key", "state_\u212aey", "\u017fTATE_\u212aEY", "ha\u017fhe\u017f", "\u017fignatures",
	"origin_\u017ferver_ts", "origin_server_t\u017f", "member\u017fhip", "prev_event\u017f", "auth_event\u017f", "prev_\u017ftate"}

var allContentKeys = []string{"membership", "join_authorised_via_users_server", "creator", "room_version",
	"additional_creators", "m.federate", "predecessor", "join_rule", "allow", "ban", "events", "events_default",
	"kick", "redact", "state_default", "users", "users_default", "invite", "notifications", "history_visibility",
	"aliases", "redacts", "reason", "body", "msgtype", "displayname", "avatar_url", "Membership", "BAN", "signed"}

var ownContentKeys = map[string][]string{
	"m.room.member":             {"membership", "join_authorised_via_users_server", "displayname"},
	"m.room.create":             {"creator", "room_version", "additional_creators", "predecessor"},
	"m.room.join_rules":         {"join_rule", "allow"},
	"m.room.power_levels":       {"ban", "events", "events_default", "kick", "redact", "state_default", "users", "users_default", "invite", "notifications"},
	"m.room.history_visibility": {"history_visibility"},
	"m.room.aliases":            {"aliases"},
	"m.room.redaction":          {"redacts", "reason"},
}

var freeClasses = []string{"imax", "imin", "esc", "obj", "arr", "null", "zero", "estr", "eobj", "earr", "false"}

const keyAlphabet = "abcxyzAZ09._- <&é"

func randKey(r *rand.Rand) string {
	rs := []rune(keyAlphabet)
	n := 1 + r.Intn(8)
	out := make([]rune, n)
	for i := range out {
		out[i] = rs[r.Intn(len(rs))]
	}
	return "x" + string(out) // never one of the known keys, never the sticky-event keys of the PDU parser
}

func randClass(r *rand.Rand) string { return freeClasses[r.Intn(len(freeClasses))] }

func refList(ver string, tags ...string) json.RawMessage {
	var xs []interface{}
	for _, t := range tags {
		if isFormatV1(ver) {
			xs = append(xs, []interface{}{hashOf(t, ver), map[string]string{"sha256": "aGFzaA"}})
		} else {
			xs = append(xs, hashOf(t, ver))
		}
	}
	b, _ := json.Marshal(xs)
	return b
}

// randomEvent composes one event; returns the line (without Got) and the JSON.
func randomEvent(r *rand.Rand, i int) (traceLine, []byte) {
	ln := traceLine{I: i, Ver: AllVersions[r.Intn(len(AllVersions))], API: "json", Con: []string{}, Tpi: []string{}}
	if r.Float64() < 0.4 {
		ln.API = "pdu"
	}
	switch x := r.Float64(); {
	case x < 0.65:
		ln.Type = protectedTypes[r.Intn(len(protectedTypes))]
	case x < 0.8:
		ln.Type = "m.room.message"
	case x < 0.9:
		ln.Type = "m.room.topic"
	default:
		ln.Type = randKey(r)
	}
	pdu := ln.API == "pdu"

	// ---- content
	con := map[string]json.RawMessage{}
	for _, k := range ownContentKeys[ln.Type] {
		if r.Float64() < 0.5 {
			con[k] = realise(randClass(r), k)
		}
	}
	for n := r.Intn(4); n > 0; n-- {
		k := allContentKeys[r.Intn(len(allContentKeys))]
		con[k] = realise(randClass(r), k)
	}
	for n := r.Intn(3); n > 0; n-- {
		k := randKey(r)
		con[k] = realise(randClass(r), k)
	}
	pTpi := 0.05
	if ln.Type == "m.room.member" {
		pTpi = 0.4
	}
	if r.Float64() < pTpi {
		if r.Float64() < 0.8 {
			ln.TpiObj = true
			sub := map[string]json.RawMessage{}
			if r.Float64() < 0.6 {
				if r.Float64() < 0.5 {
					sub["signed"] = stdSigned()
				} else {
					sub["signed"] = realise(randClass(r), "signed")
				}
			}
			if r.Float64() < 0.5 {
				sub["display_name"] = realise("esc", "display_name")
			}
			if r.Float64() < 0.2 {
				sub[randKey(r)] = realise(randClass(r), "n")
			}
			if r.Float64() < 0.1 {
				sub["Signed"] = realise(randClass(r), "n")
			}
			for k := range sub {
				ln.Tpi = append(ln.Tpi, k)
			}
			sort.Strings(ln.Tpi)
			con[nestedKey] = marshalRawMap(sub)
		} else {
			cls := []string{"imax", "esc", "arr", "null"}[r.Intn(4)]
			con[nestedKey] = realise(cls, nestedKey)
		}
	}
	for k := range con {
		ln.Con = append(ln.Con, k)
	}
	sort.Strings(ln.Con)

	// ---- top level
	top := map[string]json.RawMessage{"type": json.RawMessage(q(ln.Type)), "content": marshalRawMap(con)}
	if pdu {
		top["sender"] = json.RawMessage(q(senderFor(ln.Ver)))
		top["depth"] = json.RawMessage(fmt.Sprint(r.Intn(3) * r.Intn(500))) // 0 in about half of the events
		top["origin_server_ts"] = json.RawMessage(fmt.Sprint(int64(r.Intn(3)) * (850000000000 + r.Int63n(1000000))))
		top["prev_events"] = refList(ln.Ver, "p1", "p2")
		top["auth_events"] = refList(ln.Ver, "a1")
		if r.Float64() < 0.5 {
			if ln.Type == "m.room.create" && r.Float64() < 0.7 {
				top["state_key"] = json.RawMessage(`""`)
			} else {
				top["state_key"] = realise("esc", "state_key")
			}
		}
		createV12 := isDomainless(ln.Ver) && ln.Type == "m.room.create" && string(top["state_key"]) == `""`
		switch {
		case createV12:
		case isDomainless(ln.Ver):
			top["room_id"] = json.RawMessage(q(room12))
		default:
			top["room_id"] = json.RawMessage(q(room))
		}
		if isFormatV1(ln.Ver) {
			top["event_id"] = json.RawMessage(q(hashOf(fmt.Sprintf("ev%d", i), ln.Ver)))
		}
		if r.Float64() < 0.8 {
			top["hashes"] = json.RawMessage(`{"sha256":"aGFzaA"}`)
		}
		if r.Float64() < 0.8 {
			top["signatures"] = json.RawMessage(`{"` + hs1 + `":{"ed25519:k1":"c2ln"}}`)
		}
		if r.Float64() < 0.3 {
			top["redacts"] = json.RawMessage(q("$r<&>:" + hs1))
		}
		for _, k := range []string{"origin", "membership", "prev_state", "unsigned", "age_ts"} {
			if r.Float64() < 0.4 {
				top[k] = realise(randClass(r), k)
			}
		}
	} else {
		for _, k := range oldTopKeys {
			if r.Float64() < 0.6 {
				top[k] = realise(randClass(r), k)
			}
		}
	}
	for n := r.Intn(3); n > 0; n-- {
		k := extraTopKeys[r.Intn(len(extraTopKeys))]
		if pdu && k == "redacts" {
			continue // typed by the PDU parser
		}
		top[k] = realise(randClass(r), k)
	}
	if r.Float64() < 0.06 {
		// (PDUs too: the event parsers leave such members out of the decoding)
		k := caseVariantTopKeys[r.Intn(len(caseVariantTopKeys))]
		top[k] = realise(randClass(r), k)
	}
	for n := r.Intn(3); n > 0; n-- {
		k := randKey(r)
		top[k] = realise(randClass(r), k)
	}
	for k := range top {
		ln.Top = append(ln.Top, k)
	}
	sort.Strings(ln.Top)
	// any spelling of the object: key order, whitespace, escaped key characters (the content keeps the plain one)
	ev := spellRawMap(top, r.Intn(spellings))
	ln.Raw = string(ev)
	return ln, ev
}

// redactViaOut runs the real code for one line - preceded, immediately before the redaction proper, by an earlier
// call of the process - and projects the output; also returns the redacted text.
func redactViaOut(api, verName string, ev []byte, earlier func()) (obs observed, out []byte, err error) {
	ver, err := gmsl.GetRoomVersion(gmsl.RoomVersion(verName))
	if err != nil {
		return observed{}, nil, err
	}
	if earlier == nil {
		earlier = func() {}
	}
	if api == "pdu" {
		p, err := ver.NewEventFromTrustedJSON(ev, false)
		if err != nil {
			return observed{}, nil, fmt.Errorf("parse: %w", err)
		}
		// through one of the sibling constructors (chosen from the event text, so that a re-execution chooses alike)
		switch len(ev) % 3 {
		case 1:
			if p, err = ver.NewEventFromTrustedJSONWithEventID(p.EventID(), ev, false); err != nil {
				return observed{}, nil, fmt.Errorf("parse with event ID: %w", err)
			}
		case 2:
			hj, err := p.ToHeaderedJSON()
			if err != nil {
				return observed{}, nil, fmt.Errorf("headered: %w", err)
			}
			if p, err = gmsl.NewEventFromHeaderedJSON(hj, false); err != nil {
				return observed{}, nil, fmt.Errorf("parse headered: %w", err)
			}
		}
		earlier()
		p.Redact()
		out = p.JSON()
	} else {
		earlier()
		if out, err = ver.RedactEventJSON(ev); err != nil {
			return observed{}, nil, err
		}
	}
	red, err := decodeObj(out)
	if err != nil {
		return observed{}, out, fmt.Errorf("output is not a JSON object: %w", err)
	}
	obs, err = observe(red)
	return obs, out, err
}

func record(a *hx.Args) error {
	tw, err := hx.NewTraceWriter(a.Out)
	if err != nil {
		return err
	}
	rng := rand.New(rand.NewSource(a.Seed))
	for i := 0; i < a.N; i++ {
		ln, ev := randomEvent(rng, i)
		// the recorded call is not the first of its process: one earlier call (by seed and position) precedes it,
		// of which the recorded result must be independent (Redaction_trace.tla knows nothing of it)
		call := allCalls[int((int64(i)*7+a.Seed*31)%int64(len(allCalls))+int64(len(allCalls)))%len(allCalls)]
		res := hx.Safely(i, func() hx.Result {
			got, out, err := redactViaOut(ln.API, ln.Ver, ev, func() { perform(call, versionFor(call, ln.Ver, i)) })
			if err != nil {
				return hx.Result{OK: false, Key: "C05/" + ln.API + "/error", What: "redaction of a well-formed event failed: " + err.Error()}
			}
			h := &history{r: &rec{Ver: ln.Ver, Type: ln.Type}, ran: []histCall{call}}
			if f := h.leaked(map[string]string{"json": "RedactEventJSON", "pdu": "PDU.Redact"}[ln.API], out); f != nil {
				return hx.Result{OK: false, Key: f.key, What: f.what}
			}
			ln.Got = got
			return hx.Result{OK: true}
		})
		if !res.OK {
			// reported on stdout as a failing line with the probe that re-executes it; not part of the trace
			res.I = i
			res.Extra = probeOf(ln)
			b, _ := json.Marshal(res)
			fmt.Println(string(b))
			continue
		}
		tw.Emit(ln)
	}
	return tw.Close()
}

// probeOf turns a trace line into a replay record (expected key sets to be filled in by the caller).
func probeOf(ln traceLine) map[string]interface{} {
	return map[string]interface{}{"fam": "probe", "ver": ln.Ver, "type": ln.Type, "api": ln.API, "raw": ln.Raw,
		"top": map[string]string{}, "con": map[string]string{}, "tpi": map[string]string{}, "tpiobj": ln.TpiObj,
		"ktop": []string{}, "kcon": []string{}, "ktpi": []string{}}
}
