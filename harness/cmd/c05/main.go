// Command c05 binds spec/Redaction.tla to the real redaction code of gomatrixserverlib
// (IRoomVersion.RedactEventJSON, PDU.Redact, signEvent / VerifyJSON / VerifyEventSignatures).
//
//	c05 c05    -in records.ndjson   replay Redaction_gen.tla records (spec -> code)
//	c05 c05rec -out trace.ndjson    record seeded random redactions for Redaction_trace.tla (code -> spec)
//	c05 c05calls                    what the earlier calls of the history dimension do (diagnostic)
package main

import (
	"encoding/json"
	"fmt"
	"runtime/debug"

	"verifharness/hx"
)

func init() {
	debug.SetGCPercent(400) // allocation-heavy JSON work: fewer collections
	hx.Register("c05", "replay Redaction_gen.tla records against RedactEventJSON / PDU.Redact / signature checks", func(a *hx.Args) error {
		return hx.ReplayAll(a, func(i int, raw json.RawMessage) hx.Result { return replayOne(a.Seed, i, raw) })
	})
	hx.Register("c05calls", "list what the earlier calls of the history dimension do in this build (diagnostic)", func(a *hx.Args) error {
		for _, c := range allCalls {
			for n, v := range versionsOfAlgo[c.Algo] {
				fmt.Printf("%-9s algo %d %-14s %-13s version %-19s %s\n", c.Entry, c.Algo, c.Outcome, c.PType, v, perform(c, versionFor(c, v, n)))
			}
		}
		return nil
	})
	hx.Register("c05rec", "record seeded random redactions as an NDJSON trace for Redaction_trace.tla", record)
}

func main() { hx.Main() }
