// Command c05 binds spec/Redaction.tla to the real redaction code of gomatrixserverlib
// (IRoomVersion.RedactEventJSON, PDU.Redact, signEvent / VerifyJSON / VerifyEventSignatures).
//
//	c05 c05    -in records.ndjson   replay Redaction_gen.tla records (spec -> code)
//	c05 c05rec -out trace.ndjson    record seeded random redactions for Redaction_trace.tla (code -> spec)
package main

import (
	"runtime/debug"

	"verifharness/hx"
)

func init() {
	debug.SetGCPercent(400) // allocation-heavy JSON work: fewer collections
	hx.Register("c05", "replay Redaction_gen.tla records against RedactEventJSON / PDU.Redact / signature checks", func(a *hx.Args) error {
		return hx.ReplayAll(a, replayOne)
	})
	hx.Register("c05rec", "record seeded random redactions as an NDJSON trace for Redaction_trace.tla", record)
}

func main() { hx.Main() }
