package main

// The event OBJECT route (Redaction_gen.tla, kind "route", invariant PRoute): an object is made from the JSON of a
// well-formed signed PDU through one of the entry points, then the operations of the record are applied in order -
// PDU.Sign / SetUnsigned / EventID() / Redact() - and after the entry point and after every operation the object is
// projected to the abstract vocabulary (key sets of JSON(), signing keys named by `signatures`, Redacted()) and
// compared with what the specification derives; values of kept keys, the signatures (VerifyJSON), the event ID
// (recomputed here from the key sets of the specification, not with the library's redaction) and
// type / sender / room / state key are compared with the event that was handed in.  Redact() is also compared with
// IRoomVersion.RedactEventJSON of the JSON the object had when it was called.

import (
	"bytes"
	"crypto/sha256"
	"encoding/base64"
	"encoding/json"
	"fmt"
	"sort"

	gmsl "github.com/matrix-org/gomatrixserverlib"
	"verifharness/hx"
)

// ---- spellings of a JSON text --------------------------------------------------------------------------------

// respell writes the JSON value `text` (an object) in another spelling; the value is the same.
//
//	canon  as given (the events composed here are canonical JSON)
//	rev    members in reverse order at every level, whitespace between all tokens
//	esc    every string - member names and values - with its first character written as \uXXXX, every / as \/
func respell(text []byte, sp string) []byte {
	if sp == "canon" || sp == "" {
		return text
	}
	d := json.NewDecoder(bytes.NewReader(text))
	d.UseNumber()
	var v interface{}
	if err := d.Decode(&v); err != nil {
		panic(fmt.Sprintf("harness: respell: %v", err))
	}
	var b bytes.Buffer
	spell(&b, v, sp)
	out := b.Bytes()
	// the spelling must not change the value
	back, err := decodeObj(out)
	orig, _ := decodeObj(text)
	if err != nil || !sameJSON(back, orig) {
		panic(fmt.Sprintf("harness: respelt text is another value: %v: %s", err, out))
	}
	return out
}

func spellString(b *bytes.Buffer, s string, sp string) {
	if sp != "esc" {
		b.WriteString("\"" + jsonInner(s) + "\"")
		return
	}
	b.WriteByte('"')
	rs := []rune(s)
	for i, r := range rs {
		switch {
		case i == 0 && r < 0x10000:
			fmt.Fprintf(b, "\\u%04x", r)
		case r == '/':
			b.WriteString("\\/")
		default:
			b.WriteString(jsonInner(string(r)))
		}
	}
	b.WriteByte('"')
}

func spell(b *bytes.Buffer, v interface{}, sp string) {
	switch x := v.(type) {
	case map[string]interface{}:
		keys := keysOf(x)
		sep, colon, open, shut := ",", ":", "{", "}"
		if sp == "rev" {
			sort.Sort(sort.Reverse(sort.StringSlice(keys)))
			sep, colon, open, shut = " ,\n\t", " : ", "{ ", "\r\n}"
		}
		b.WriteString(open)
		for i, k := range keys {
			if i > 0 {
				b.WriteString(sep)
			}
			spellString(b, k, sp)
			b.WriteString(colon)
			spell(b, x[k], sp)
		}
		b.WriteString(shut)
	case []interface{}:
		b.WriteString("[")
		for i, e := range x {
			if i > 0 {
				if sp == "rev" {
					b.WriteString(" , ")
				} else {
					b.WriteString(",")
				}
			}
			spell(b, e, sp)
		}
		b.WriteString("]")
	case string:
		spellString(b, x, sp)
	case json.Number:
		b.WriteString(string(x))
	case bool:
		if x {
			b.WriteString("true")
		} else {
			b.WriteString("false")
		}
	case nil:
		b.WriteString("null")
	default:
		panic(fmt.Sprintf("harness: respell: unexpected %T", v))
	}
}

// ---- the event ID the specification's redaction gives ------------------------------------------------------------

// projectByModel is the redaction of the decoded event `orig` as the key sets of the record say (Redaction.tla:
// Redact), without the library's redaction code.
func projectByModel(r *rec, orig map[string]interface{}) map[string]interface{} {
	out := map[string]interface{}{}
	keepAll := r.Algo == 5 && r.Type == "m.room.create"
	for _, k := range r.KTop {
		v, ok := orig[k]
		if !ok {
			continue
		}
		if k != "content" {
			out[k] = v
			continue
		}
		oc, _ := v.(map[string]interface{})
		nc := map[string]interface{}{}
		for _, ck := range r.KCon {
			cv, ok := oc[ck]
			if !ok {
				continue
			}
			if nested, isObj := cv.(map[string]interface{}); ck == nestedKey && isObj && !keepAll {
				nn := map[string]interface{}{}
				for _, nk := range r.KTpi {
					if nv, ok := nested[nk]; ok {
						nn[nk] = nv
					}
				}
				cv = nn
			}
			nc[ck] = cv
		}
		out[k] = nc
	}
	return out
}

// modelEventID: event format 1, or an event_id member in the JSON: that member; otherwise the reference hash of
// the event - sha256 over the canonical JSON of its redaction without `signatures` and `unsigned`.
func modelEventID(r *rec, orig map[string]interface{}, stripped bool) string {
	if id, ok := orig["event_id"].(string); ok && !(stripped && !isFormatV1(r.Ver)) {
		return id
	}
	red := projectByModel(r, orig)
	delete(red, "signatures")
	delete(red, "unsigned")
	delete(red, "event_id")
	plain, err := json.Marshal(red)
	if err != nil {
		panic(err)
	}
	canon, err := gmsl.CanonicalJSON(plain)
	if err != nil {
		panic(fmt.Sprintf("harness: canonical JSON of the projected event: %v", err))
	}
	sum := sha256.Sum256(canon)
	if r.Ver == "3" {
		return "$" + base64.RawStdEncoding.EncodeToString(sum[:])
	}
	return "$" + base64.RawURLEncoding.EncodeToString(sum[:])
}

// ---- the route ------------------------------------------------------------------------------------------------

func routeSigner(ver, name string) signer {
	switch name {
	case "s1":
		return signersFor(ver)[0]
	case "s2":
		return signer2
	case "s1b":
		return signer1b
	}
	panic("harness: unknown signer " + name)
}

func routeKey(r *rec, after string, what string) string {
	return "C05/route/" + r.Entry + "/" + after + "/" + what
}

// sigNames lists the signing keys the `signatures` member names, as "server|key ID".
func sigNames(ev map[string]interface{}) []string {
	out := []string{}
	sm, _ := ev["signatures"].(map[string]interface{})
	for srv, ks := range sm {
		km, _ := ks.(map[string]interface{})
		for kid := range km {
			out = append(out, srv+"|"+kid)
		}
	}
	sort.Strings(out)
	return out
}

func runRoute(r *rec, h *history) *hx.Result {
	ver, err := gmsl.GetRoomVersion(gmsl.RoomVersion(r.Ver))
	if err != nil {
		return fail("C05/version/unregistered", "room version "+r.Ver+" is not registered", nil, nil)
	}
	if len(r.Exp) != len(r.Steps)+1 {
		panic("harness: route record: one observation per step expected")
	}
	event, _ := pduEventWith(r, []signer{routeSigner(r.Ver, "s1")}, true)
	orig, err := decodeObj(event)
	if err != nil {
		panic(err)
	}
	wantID := modelEventID(r, orig, r.Entry == "untrusted")
	text := respell(append([]byte(nil), event...), r.Sp)
	handed := append([]byte(nil), text...)
	desc := fmt.Sprintf("room version %s, %s, JSON spelt %q, entry %s", r.Ver, r.Type, r.Sp, r.Entry)

	// ---- the entry point
	var p gmsl.PDU
	switch r.Entry {
	case "trusted":
		p, err = ver.NewEventFromTrustedJSON(text, false)
	case "withid":
		p, err = ver.NewEventFromTrustedJSONWithEventID(wantID, text, false)
	case "headered":
		var o gmsl.PDU
		if o, err = ver.NewEventFromTrustedJSON(text, false); err == nil {
			var hj []byte
			if hj, err = o.ToHeaderedJSON(); err == nil {
				p, err = gmsl.NewEventFromHeaderedJSON(hj, false)
			}
		}
	case "untrusted":
		p, err = ver.NewEventFromUntrustedJSON(text)
	default:
		panic("harness: unknown entry point " + r.Entry)
	}
	if err != nil {
		return fail(routeKey(r, "entry", "error"), fmt.Sprintf("%s: the entry point refuses a well-formed signed event: %v", desc, err), nil, string(text))
	}
	if !bytes.Equal(handed, text) {
		return fail(routeKey(r, "entry", "input-modified"), desc+": the entry point modified the buffer it was given", string(handed), string(text))
	}

	done := []string{}
	observeStep := func(i int, after string) *hx.Result {
		exp := r.Exp[i]
		where := fmt.Sprintf("%s, after %v", desc, append([]string{r.Entry}, done...))
		cj := p.JSON()
		cur, err := decodeObj(cj)
		if err != nil {
			return fail(routeKey(r, after, "invalid-json"), where+": JSON() is not a JSON object: "+err.Error(), nil, string(cj))
		}
		obs, err := observe(cur)
		if err != nil {
			return fail(routeKey(r, after, "content-not-object"), where+": "+err.Error(), nil, string(cj))
		}
		if k, keeps, diff := firstDiff(setOf(exp.Top), setOf(obs.Top)); diff {
			return fail(routeKey(r, after, "top/"+k+":"+arrow(keeps)),
				fmt.Sprintf("%s: top-level keys of JSON() differ at %q; the specification has %v, the object %v", where, k, sorted(exp.Top), obs.Top), sorted(exp.Top), obs.Top)
		}
		if k, keeps, diff := firstDiff(setOf(exp.Con), setOf(obs.Con)); diff {
			return fail(routeKey(r, after, "content/"+typeClass(r.Type)+"/"+k+":"+arrow(keeps)),
				fmt.Sprintf("%s: content keys of JSON() differ at %q; the specification has %v, the object %v", where, k, sorted(exp.Con), obs.Con), sorted(exp.Con), obs.Con)
		}
		if setOf(exp.Con)[nestedKey] && r.TpiObj {
			if k, keeps, diff := firstDiff(setOf(exp.Tpi), setOf(obs.Tpi)); diff || !obs.TpiObj {
				return fail(routeKey(r, after, "content/"+typeClass(r.Type)+"/"+nestedKey+"."+k+":"+arrow(keeps)),
					fmt.Sprintf("%s: keys of content.third_party_invite differ; the specification has %v, the object %v", where, sorted(exp.Tpi), obs.Tpi), sorted(exp.Tpi), obs.Tpi)
			}
		}
		// values are untouched by every operation
		for _, k := range exp.Top {
			if k == "content" || k == "signatures" || k == "unsigned" {
				continue
			}
			if !sameJSON(orig[k], cur[k]) {
				return fail(routeKey(r, after, "value/top/"+k), fmt.Sprintf("%s: value of top-level key %q differs from the event handed in", where, k), orig[k], cur[k])
			}
		}
		oc, _ := orig["content"].(map[string]interface{})
		cc, _ := cur["content"].(map[string]interface{})
		for _, k := range exp.Con {
			ov, cv := oc[k], cc[k]
			if on, isObj := ov.(map[string]interface{}); k == nestedKey && isObj {
				pr := map[string]interface{}{}
				for _, nk := range exp.Tpi {
					if v, ok := on[nk]; ok {
						pr[nk] = v
					}
				}
				ov = pr
			}
			if !sameJSON(ov, cv) {
				return fail(routeKey(r, after, "value/content/"+typeClass(r.Type)+"/"+k), fmt.Sprintf("%s: value of content key %q differs from the event handed in", where, k), ov, cv)
			}
		}
		if p.Redacted() != exp.Red {
			return fail(routeKey(r, after, "redacted-flag"), where+": Redacted() differs from the specification", exp.Red, p.Redacted())
		}
		// signatures: exactly the keys that signed, each verifying on the redacted form (on JSON() itself once redacted)
		wantSigs := []string{}
		for _, s := range exp.Sigs {
			sg := routeSigner(r.Ver, s)
			wantSigs = append(wantSigs, sg.name+"|"+string(sg.key))
		}
		sort.Strings(wantSigs)
		gotSigs := sigNames(cur)
		if k, keeps, diff := firstDiff(setOf(wantSigs), setOf(gotSigs)); diff {
			role := "?"
			for _, s := range []string{"s1", "s2", "s1b"} {
				if sg := routeSigner(r.Ver, s); sg.name+"|"+string(sg.key) == k {
					role = map[string]string{"s1": "origin", "s2": "other-server", "s1b": "origin-second-key"}[s]
				}
			}
			how := "lost"
			if !keeps {
				how = "invented"
			}
			return fail(routeKey(r, after, "sig/"+role+":"+how),
				fmt.Sprintf("%s: `signatures` names %v, the event was signed by %v (first difference %q)", where, gotSigs, wantSigs, k), wantSigs, gotSigs)
		}
		signedForm := cj
		if !exp.Red {
			if signedForm, err = ver.RedactEventJSON(cj); err != nil {
				return fail(routeKey(r, after, "json/error"), where+": RedactEventJSON of JSON() failed: "+err.Error(), nil, string(cj))
			}
		}
		for _, s := range exp.Sigs {
			sg := routeSigner(r.Ver, s)
			if err := gmsl.VerifyJSON(sg.name, sg.key, sg.pub, signedForm); err != nil {
				role := map[string]string{"s1": "origin", "s2": "other-server", "s1b": "origin-second-key"}[s]
				return fail(routeKey(r, after, "sig/"+role+":does-not-verify"),
					fmt.Sprintf("%s: the signature of %s (%s) does not verify: %v", where, sg.name, sg.key, err), nil, string(signedForm))
			}
		}
		return nil
	}
	checkID := func(after string) *hx.Result {
		if got := p.EventID(); got != wantID {
			return fail(routeKey(r, after, "eventid"),
				fmt.Sprintf("%s, after %v: EventID() is %q, the event ID of the event handed in is %q", desc, append([]string{r.Entry}, done...), got, wantID), wantID, got)
		}
		return nil
	}

	if res := observeStep(0, "entry"); res != nil {
		return res
	}
	redacted := false
	for i, act := range r.Steps {
		after := act
		if redacted && act != "redact" {
			after = "redact>" + act
		}
		done = append(done, act)
		switch act {
		case "sign":
			// Redaction_gen.tla: NextSigner
			have := setOf(r.Exp[i].Sigs)
			name := "s1"
			if !have["s2"] {
				name = "s2"
			} else if !have["s1b"] {
				name = "s1b"
			}
			sg := routeSigner(r.Ver, name)
			p = p.Sign(sg.name, sg.key, sg.priv)
		case "setunsigned":
			if p, err = p.SetUnsigned(map[string]interface{}{"age": 0, "prev_content": map[string]string{"membership": "<leave>"}}); err != nil {
				return fail(routeKey(r, after, "error"), desc+": SetUnsigned: "+err.Error(), nil, nil)
			}
		case "readid":
			if res := checkID(after); res != nil {
				return res
			}
		case "redact":
			was := append([]byte(nil), p.JSON()...)
			wasRedacted := p.Redacted()
			h.before()
			p.Redact()
			if res := h.leaked("PDU.Redact", p.JSON()).result(); res != nil {
				return res
			}
			if wasRedacted && !bytes.Equal(was, p.JSON()) {
				return fail("C05/idempotent/pdu", desc+": Redact() changed an object that was redacted already", string(was), string(p.JSON()))
			}
			redacted = true
			// first against the specification ...
			if res := observeStep(i+1, after); res != nil {
				return res
			}
			// ... then against IRoomVersion.RedactEventJSON of the JSON the object had
			if !wasRedacted {
				wj, err := ver.RedactEventJSON(was)
				if err != nil {
					return fail(routeKey(r, after, "json/error"), desc+": RedactEventJSON of the object's JSON failed: "+err.Error(), nil, string(was))
				}
				want, err1 := decodeObj(wj)
				got, err2 := decodeObj(p.JSON())
				if err1 != nil || err2 != nil || !sameJSON(want, got) {
					return fail(routeKey(r, after, "differs-from-RedactEventJSON"),
						fmt.Sprintf("%s, after %v: Redact() is not the redaction (RedactEventJSON) of the JSON the object had", desc, append([]string{r.Entry}, done...)), string(wj), string(p.JSON()))
				}
			}
		default:
			panic("harness: unknown operation " + act)
		}
		if act != "redact" {
			if res := observeStep(i+1, after); res != nil {
				return res
			}
		}
	}

	// ---- at the end: identity
	last := "end"
	if res := checkID(last); res != nil {
		return res
	}
	if t, _ := orig["type"].(string); p.Type() != t {
		return fail("C05/core/type", desc+": Type() differs from the event handed in", t, p.Type())
	}
	if s, _ := orig["sender"].(string); string(p.SenderID()) != s {
		return fail("C05/core/sender", desc+": SenderID() differs from the event handed in", s, p.SenderID())
	}
	if rm, has := orig["room_id"].(string); has && p.RoomID().String() != rm {
		return fail("C05/core/room_id", desc+": RoomID() differs from the event handed in", rm, p.RoomID().String())
	}
	sk, has := orig["state_key"].(string)
	if got := p.StateKey(); has != (got != nil) || (has && *got != sk) {
		return fail("C05/core/state_key", desc+": StateKey() differs from the event handed in", orig["state_key"], got)
	}
	// a new object made from the JSON of this one is the same event
	q, err := ver.NewEventFromTrustedJSON(p.JSON(), redacted)
	if err != nil {
		return fail("C05/pdu/redacted-does-not-parse", desc+": JSON() of the object does not parse: "+err.Error(), nil, string(p.JSON()))
	}
	if q.EventID() != wantID {
		return fail(routeKey(r, last, "eventid/reparsed"), fmt.Sprintf("%s, after %v: a new object made from JSON() has the event ID %q, the event handed in %q", desc, append([]string{r.Entry}, done...), q.EventID(), wantID), wantID, q.EventID())
	}
	return nil
}
