package main

// Redaction is a function of its argument (Redaction_gen.tla, kind "hist", invariant PHistory): the call under
// observation is preceded, in the same process and on the same goroutine, by OTHER calls - accepted ones and ones the
// library refuses - through RedactEventJSON (of the record's room version and of the other algorithms), PDU.Redact
// and the untrusted parse of an event whose content hash does not match.  The events of those calls carry a
// distinctive value under EVERY key any algorithm lists (top level, content of every type,
// third_party_invite.signed); whatever they do, nothing of them may be found in the result of the observed call.
//
//   - records of kind "hist" name the earlier calls themselves (hist: entry, algorithm, outcome, event type);
//   - every other record is decorated: the earlier calls are derived from (seed, position of the record, stage
//     within the record), so that a re-execution of the record alone (VERIF_INDEX_BASE) repeats them.

import (
	"bytes"
	"encoding/json"
	"fmt"
	"regexp"
	"strings"
	"sync"

	gmsl "github.com/matrix-org/gomatrixserverlib"
)

// histCall is one earlier call (Redaction_gen.tla: AllCalls).
type histCall struct {
	Entry   string `json:"entry"`   // "json" | "pdu" | "untrusted"
	Algo    int    `json:"algo"`    // redaction algorithm 1..5 of the earlier call
	Outcome string `json:"outcome"` // "accepted" | "content-array" | "content-string" | "type-number" | "type-object"
	PType   string `json:"ptype"`   // type of the earlier event
}

func (c histCall) refused() bool { return c.Outcome != "accepted" }

func (c histCall) outcomeClass() string {
	if c.refused() {
		return "refused"
	}
	return "accepted"
}

func (c histCall) String() string {
	how := map[string]string{"json": "RedactEventJSON", "pdu": "trusted parse + PDU.Redact", "untrusted": "NewEventFromUntrustedJSON (content hash mismatch)"}[c.Entry]
	what := "a well-formed " + c.PType + " event"
	switch c.Outcome {
	case "content-array":
		what = "a " + c.PType + " event whose content is an array"
	case "content-string":
		what = "a " + c.PType + " event whose content is a string"
	case "type-number":
		what = "an event whose type is a number"
	case "type-object":
		what = "an event whose type is an object"
	}
	return fmt.Sprintf("%s (redaction algorithm %d) of %s", how, c.Algo, what)
}

// every call of the model, in a fixed order (the decoration cycles through it)
var allCalls = func() []histCall {
	var out []histCall
	for _, oc := range []string{"content-array", "accepted", "type-number", "content-string", "type-object"} {
		for a := 1; a <= 5; a++ {
			for _, en := range []string{"json", "pdu", "untrusted"} {
				pts := []string{"m.room.member"}
				if en == "json" {
					pts = []string{"m.room.create", "m.room.member"}
				}
				for _, pt := range pts {
					out = append(out, histCall{en, a, oc, pt})
				}
			}
		}
	}
	return out
}()

// room versions per redaction algorithm (MatrixBase!RedactionAlgo)
var versionsOfAlgo = map[int][]string{
	1: {"1", "2", "3", "4", "5"},
	2: {"6", "7", "org.matrix.msc3667"},
	3: {"8"},
	4: {"9", "10", "org.matrix.msc3787", "org.matrix.msc4014"},
	5: {"11", "12", "org.matrix.hydra.11"},
}

func algoOfVersion(ver string) int {
	for a, vs := range versionsOfAlgo {
		for _, v := range vs {
			if v == ver {
				return a
			}
		}
	}
	return 0
}

// versionFor chooses the room version an earlier call runs under: the observed call's own version when the
// algorithm is the same, otherwise one of the versions of that algorithm (by n).
func versionFor(c histCall, ownVer string, n int) string {
	if algoOfVersion(ownVer) == c.Algo {
		return ownVer
	}
	vs := versionsOfAlgo[c.Algo]
	if len(vs) == 0 {
		panic(fmt.Sprintf("harness: no room version for redaction algorithm %d", c.Algo))
	}
	if n < 0 {
		n = -n
	}
	return vs[n%len(vs)]
}

// ---- the events of earlier calls ---------------------------------------------------------------------------

const (
	poisonWord   = "vrf-poison"
	poisonB64    = "dnJmLXBvaXNvbg" // unpadded base64 of poisonWord (hashes, signatures)
	poisonNumber = "73737370"       // leading digits of every poison number (depth, origin_server_ts)
)

var allListedContentKeys = []string{"membership", "join_authorised_via_users_server", "creator", "join_rule", "allow",
	"ban", "events", "events_default", "kick", "redact", "state_default", "users", "users_default", "invite",
	"history_visibility", "aliases", "redacts"}

func (c histCall) tag() string { return fmt.Sprintf("%s-%s-%s-a%d", poisonWord, c.Entry, c.Outcome, c.Algo) }

var tagPattern = regexp.MustCompile(poisonWord + `-(json|pdu|untrusted)-(accepted|content-array|content-string|type-number|type-object)-a([1-5])`)

var poisonCache sync.Map // histCall + version -> []byte

// poisonEvent composes the event of an earlier call: every listed key present, every value distinctive and
// carrying the tag of the call.
func poisonEvent(c histCall, ver string) []byte {
	ck := fmt.Sprintf("%v|%s", c, ver)
	if b, ok := poisonCache.Load(ck); ok {
		return b.([]byte)
	}
	tag := c.tag()
	ref := func(n string) json.RawMessage {
		id := "$" + tag + "-" + n + ":poison.example"
		if isFormatV1(ver) {
			return json.RawMessage(`[[` + q(id) + `,{"sha256":"` + poisonB64 + `"}]]`)
		}
		return json.RawMessage(`[` + q(id) + `]`)
	}
	con := map[string]json.RawMessage{}
	for _, k := range allListedContentKeys {
		con[k] = json.RawMessage(q(tag + "-content-" + k))
	}
	con[nestedKey] = json.RawMessage(`{"display_name":` + q(tag+"-tpi-display_name") + `,"signed":{"mxid":` + q("@"+tag+":poison.example") + `,"token":` + q(tag+"-token") + `}}`)
	ev := map[string]json.RawMessage{
		"event_id":         json.RawMessage(q("$" + tag + "-id:poison.example")),
		"type":             json.RawMessage(q(c.PType)),
		"room_id":          json.RawMessage(q("!" + tag + ":poison.example")),
		"sender":           json.RawMessage(q("@" + tag + ":poison.example")),
		"state_key":        json.RawMessage(q("@" + tag + "-state-key:poison.example")),
		"content":          marshalRawMap(con),
		"hashes":           json.RawMessage(`{"sha256":"` + poisonB64 + `"}`),
		"signatures":       json.RawMessage(`{"` + tag + `.example":{"ed25519:p":"` + poisonB64 + `"}}`),
		"depth":            json.RawMessage(poisonNumber + "1"),
		"prev_events":      ref("prev"),
		"prev_state":       ref("prev-state"),
		"auth_events":      ref("auth"),
		"origin":           json.RawMessage(q(tag + ".example")),
		"origin_server_ts": json.RawMessage(poisonNumber + "2"),
		"membership":       json.RawMessage(q(tag + "-membership")),
	}
	switch c.Outcome {
	case "accepted":
	case "content-array":
		ev["content"] = json.RawMessage(`[` + q(tag+"-content") + `,` + string(marshalRawMap(con)) + `]`)
	case "content-string":
		ev["content"] = json.RawMessage(q(tag + "-content"))
	case "type-number":
		ev["type"] = json.RawMessage(poisonNumber + "3")
	case "type-object":
		ev["type"] = json.RawMessage(`{` + q(tag+"-type") + `:` + q(c.PType) + `}`)
	default:
		panic("harness: unknown outcome of an earlier call: " + c.Outcome)
	}
	b := []byte(marshalRawMap(ev))
	poisonCache.Store(ck, b)
	return b
}

// perform carries out one earlier call.  Whatever it does (result, error, panic) is not judged here: the property
// speaks about the call that follows.  Returns a short description of what happened (for c05calls).
func perform(c histCall, ver string) (outcome string) {
	defer func() {
		if p := recover(); p != nil {
			outcome = fmt.Sprintf("panic: %v", p)
		}
	}()
	rv, err := gmsl.GetRoomVersion(gmsl.RoomVersion(ver))
	if err != nil {
		return "no such version"
	}
	ev := append([]byte(nil), poisonEvent(c, ver)...)
	switch c.Entry {
	case "json":
		if _, err := rv.RedactEventJSON(ev); err != nil {
			return "refused: " + err.Error()
		}
	case "pdu":
		p, err := rv.NewEventFromTrustedJSON(ev, false)
		if err != nil {
			return "refused (parse): " + err.Error()
		}
		p.Redact()
		_ = p.EventID()
	case "untrusted":
		// hashes is not the content hash of this event: the library redacts it on receipt
		p, err := rv.NewEventFromUntrustedJSON(ev)
		if err != nil {
			return "refused: " + err.Error()
		}
		if !p.Redacted() {
			return "accepted, not redacted"
		}
	default:
		panic("harness: unknown entry point of an earlier call: " + c.Entry)
	}
	return "accepted"
}

// ---- which calls precede which observed call ------------------------------------------------------------------

// history is the state of one record's execution: what ran before, in order.
type history struct {
	r     *rec
	pos   int   // position of the record in the batch
	seed  int64 // seed of the run
	stage int   // observed calls so far
	ran   []histCall
	fixed []histCall // probes: the calls that precede every observed call
}

func newHistory(r *rec, pos int, seed int64) *history { return &history{r: r, pos: pos, seed: seed} }

// before runs the earlier calls of the next observed call.
func (h *history) before() {
	if h == nil {
		return
	}
	var calls []histCall
	switch {
	case h.r.Kind == "hist":
		calls = h.r.Hist
	case h.r.Fam == "probe":
		calls = h.fixed // (replayOne runs a probe once per call of the model)
	default:
		// decoration: one call per stage, cycling with the position
		n := int((int64(h.pos)*7 + int64(h.stage)*13 + h.seed*31) % int64(len(allCalls)))
		if n < 0 {
			n += len(allCalls)
		}
		calls = []histCall{allCalls[n]}
	}
	for k, c := range calls {
		perform(c, versionFor(c, h.r.Ver, h.pos+h.stage+k))
		h.ran = append(h.ran, c)
	}
	h.stage++
}

// leaked looks for values of earlier calls in the output of an observed call.
func (h *history) leaked(api string, out []byte) *hxFailure {
	if h == nil || len(h.ran) == 0 {
		return nil
	}
	if !bytes.Contains(out, []byte(poisonWord)) && !bytes.Contains(out, []byte(poisonB64)) && !bytes.Contains(out, []byte(poisonNumber)) {
		return nil
	}
	// which call (the values name it; numbers and hashes do not: then the latest), under which key
	culprit := h.ran[len(h.ran)-1]
	if m := tagPattern.FindSubmatch(out); m != nil {
		culprit = histCall{Entry: string(m[1]), Outcome: string(m[2]), Algo: int(m[3][0] - '0'), PType: "m.room.member"}
		for j := len(h.ran) - 1; j >= 0; j-- {
			if h.ran[j].tag() == culprit.tag() {
				culprit = h.ran[j]
				break
			}
		}
	}
	where := []string{}
	if m, err := decodeObj(out); err == nil {
		holds := func(v interface{}) bool {
			b, _ := json.Marshal(v)
			return bytes.Contains(b, []byte(poisonWord)) || bytes.Contains(b, []byte(poisonB64)) || bytes.Contains(b, []byte(poisonNumber))
		}
		for _, k := range keysOf(m) {
			if k == "content" {
				if cm, ok := m[k].(map[string]interface{}); ok {
					for _, ck := range keysOf(cm) {
						if holds(cm[ck]) {
							where = append(where, "content."+ck)
						}
					}
					continue
				}
			}
			if holds(m[k]) {
				where = append(where, k)
			}
		}
	}
	apiClass := api
	if i := strings.IndexAny(api, "[,"); i >= 0 {
		apiClass = api[:i]
	}
	return &hxFailure{
		key: fmt.Sprintf("C05/history/%s:%s/%s:value-of-earlier-call", culprit.Entry, culprit.outcomeClass(), apiClass),
		what: fmt.Sprintf("%s (room version %s, %s): the result holds values of an EARLIER call of the same process under %v - "+
			"earlier call: %s; redaction is not a function of the event it is given (state left behind between calls)",
			api, h.r.Ver, h.r.Type, where, culprit),
		want: "nothing of an earlier call", got: string(out)}
}

type hxFailure struct {
	key, what string
	want, got interface{}
}
