package main

// Abstract vocabulary of Redaction_gen.tla / Redaction_trace.tla and its realisation as concrete JSON.

import (
	"bytes"
	"context"
	"crypto/ed25519"
	"crypto/sha256"
	"encoding/base64"
	"encoding/json"
	"fmt"
	"regexp"
	"sort"
	"strconv"
	"strings"
	"time"

	gmsl "github.com/matrix-org/gomatrixserverlib"
	"github.com/matrix-org/gomatrixserverlib/spec"
)

// classMap is a TLA+ function key -> value class; TLC prints the empty function as [].
type classMap map[string]string

func (c *classMap) UnmarshalJSON(b []byte) error {
	b = bytes.TrimSpace(b)
	*c = classMap{}
	if len(b) > 0 && b[0] == '[' {
		var xs []interface{}
		if err := json.Unmarshal(b, &xs); err != nil {
			return err
		}
		if len(xs) != 0 {
			return fmt.Errorf("class map printed as a non-empty array: %s", b)
		}
		return nil
	}
	m := map[string]string{}
	if err := json.Unmarshal(b, &m); err != nil {
		return err
	}
	for k, v := range m {
		if d := denote(k); d != k {
			delete(m, k)
			m[d] = v
		}
	}
	*c = m
	return nil
}

// denote realises the <U+XXXX> notation of the vocabulary (Redaction_gen.tla: fold variants of listed keys are
// written in ASCII in the specification): "<U+017F>ender" is the member name U+017F e n d e r.
var notation = regexp.MustCompile(`<U\+([0-9A-F]{4})>`)

func denote(k string) string {
	if !strings.Contains(k, "<U+") {
		return k
	}
	return notation.ReplaceAllStringFunc(k, func(m string) string {
		n, err := strconv.ParseUint(m[3:7], 16, 32)
		if err != nil {
			panic(err)
		}
		return string(rune(n))
	})
}

// rec is one scenario: the abstract event and the key sets the specification keeps.
type rec struct {
	Fam    string   `json:"fam"` // "raw" | "pdu" | "probe" (Raw given)
	// "lattice" | "vocab" (unlisted keys drawn from the member names of the library's sources) | "hist" (Hist: the
	// calls the process handled before)
	Kind string     `json:"kind,omitempty"`
	Hist []histCall `json:"hist,omitempty"`
	Ver    string   `json:"ver"`
	Algo   int      `json:"algo"`
	Type   string   `json:"type"`
	Top    classMap `json:"top"`
	Con    classMap `json:"con"`
	TpiObj bool     `json:"tpiobj"`
	Tpi    classMap `json:"tpi"`
	KTop   []string `json:"ktop"`
	KCon   []string `json:"kcon"`
	KTpi   []string `json:"ktpi"`
	// probes built from rejected trace lines: the concrete event, and what was recorded for it
	Raw string `json:"raw,omitempty"`
	API string `json:"api,omitempty"`
	// kind "route": the entry point that makes the object, the spelling of the JSON text handed to it, the
	// operations applied afterwards and what the object is after the entry point and after every operation
	Entry string     `json:"entry,omitempty"`
	Sp    string     `json:"sp,omitempty"`
	Steps []string   `json:"steps,omitempty"`
	Exp   []routeObs `json:"exp,omitempty"`
}

// routeObs is the abstract object after one step (Redaction_gen.tla: ObsOf).
type routeObs struct {
	Top  []string `json:"top"`
	Con  []string `json:"con"`
	Tpi  []string `json:"tpi"`
	Sigs []string `json:"sigs"`
	Red  bool     `json:"red"`
}

const nestedKey = "third_party_invite"

var AllVersions = []string{"1", "2", "3", "4", "5", "6", "7", "8", "9", "10", "11", "12",
	"org.matrix.msc3667", "org.matrix.msc3787", "org.matrix.msc4014", "org.matrix.hydra.11"}

func isDomainless(ver string) bool { return ver == "12" || ver == "org.matrix.hydra.11" }
func isFormatV1(ver string) bool   { return ver == "1" || ver == "2" }

// ---- identities and keys ---------------------------------------------------------------------

const (
	hs1   = "hs1.example.org"
	hs2   = "hs2.example.org"
	keyID = gmsl.KeyID("ed25519:k1")
	alice = "@alice:" + hs1
	room  = "!room:" + hs1
)

type signer struct {
	name string
	key  gmsl.KeyID
	priv ed25519.PrivateKey
	pub  ed25519.PublicKey
}

func mkSigner(name string, key gmsl.KeyID, seed byte) signer {
	priv := ed25519.NewKeyFromSeed(bytes.Repeat([]byte{seed}, ed25519.SeedSize))
	return signer{name, key, priv, priv.Public().(ed25519.PublicKey)}
}

var (
	signer1 = mkSigner(hs1, keyID, 1)
	signer2 = mkSigner(hs2, "ed25519:k2", 2)
	// a second key of the sender's server: two key IDs under one server name
	signer1b = mkSigner(hs1, "ed25519:k1b", 4)
	// pseudo-ID rooms: the sender is a key and signs under its own name with key ID ed25519:1
	pseudoPriv   = ed25519.NewKeyFromSeed(bytes.Repeat([]byte{3}, ed25519.SeedSize))
	pseudoSender = string(spec.SenderIDFromPseudoIDKey(pseudoPriv))
	signerPseudo = signer{pseudoSender, "ed25519:1", pseudoPriv, pseudoPriv.Public().(ed25519.PublicKey)}
	room12       = "!" + base64.RawURLEncoding.EncodeToString(sha256sum([]byte("room12")))
	fixedNow     = time.UnixMilli(1700000000000)
)

func sha256sum(b []byte) []byte { h := sha256.Sum256(b); return h[:] }

func senderFor(ver string) string {
	if ver == "org.matrix.msc4014" {
		return pseudoSender
	}
	return alice
}

// ---- value classes ---------------------------------------------------------------------------------

func q(s string) string { b, _ := json.Marshal(s); return string(b) }

// realise returns the JSON text of the value of class cls for key k, as a remote server would send it
// (characters < > & and U+2028 are not escaped on the wire; Go's encoder escapes all four).
func realise(cls, k string) json.RawMessage {
	switch cls {
	case "imax":
		return json.RawMessage(`9007199254740991`)
	case "imin":
		return json.RawMessage(`-9007199254740991`)
	case "esc":
		return json.RawMessage("\"" + jsonInner(k) + "<b>&c\u2028d\"")
	case "obj":
		return json.RawMessage(`{"k<":{"n":[9007199254740991,"<&>"],"z":null},"of":"` + jsonInner(k) + `"}`)
	case "arr":
		return json.RawMessage(`[1,"<` + jsonInner(k) + `>",{"a":null},[]]`)
	case "null":
		return json.RawMessage(`null`)
	// values an "omit when empty" treatment would lose
	case "zero":
		return json.RawMessage(`0`)
	case "estr":
		return json.RawMessage(`""`)
	case "eobj":
		return json.RawMessage(`{}`)
	case "earr":
		return json.RawMessage(`[]`)
	case "false":
		return json.RawMessage(`false`)
	case "iexp": // the integer 100, spelt with an exponent
		return json.RawMessage(`1E2`)
	}
	panic("harness: unknown value class " + cls)
}

// jsonInner is s as it appears between the quotes of a JSON string (no HTML escaping).
func jsonInner(s string) string {
	var b bytes.Buffer
	enc := json.NewEncoder(&b)
	enc.SetEscapeHTML(false)
	if err := enc.Encode(s); err != nil {
		panic(err)
	}
	out := bytes.TrimSpace(b.Bytes())
	return string(out[1 : len(out)-1])
}

func concreteType(t, cls string) string {
	if t == "other" {
		if cls == "esc" {
			return "org.example.<custom>&type"
		}
		return "m.room.message"
	}
	return t
}

// stdTop is the well-typed value of an optional top-level key.
func stdTop(k string) json.RawMessage {
	switch k {
	case "state_key":
		return json.RawMessage(`""`)
	case "prev_state":
		return json.RawMessage(`[]`)
	case "origin":
		return json.RawMessage(q(hs1))
	case "membership":
		return json.RawMessage(`"join"`)
	case "unsigned":
		return json.RawMessage(`{"age":1234,"prev_content":{"membership":"leave"}}`)
	case "age_ts":
		return json.RawMessage(`1700000000123`)
	case "redacts":
		return json.RawMessage(`"$redacted:` + hs1 + `"`)
	case "event_id": // room version 3+: a member that trusted JSON may carry
		return json.RawMessage(`"$std-event_id:` + hs1 + `"`)
	case "sticky", "msc4354_sticky": // MSC4354
		return json.RawMessage(`{"duration_ms":60000}`)
	}
	return json.RawMessage(q("std-" + k))
}

func stdSigned() json.RawMessage {
	return json.RawMessage(`{"mxid":"@bob:` + hs2 + `","token":"tok<&>","signatures":{"id.example.org":{"ed25519:0":"c2lnbmF0dXJl"}}}`)
}

// Spellings of the same JSON object (the abstract event, and therefore what redaction keeps, is the same):
//
//	0  compact, keys sorted
//	1  keys in reverse order at every level, whitespace between all tokens
//	2  the first character of every key written as a \uXXXX escape; strings of class esc use \/ and \u00e9
const spellings = 3

// contentJSON composes the content object of the abstract event.
func contentJSON(r *rec) json.RawMessage { return contentSpelt(r, 0) }

func contentSpelt(r *rec, sp int) json.RawMessage {
	m := map[string]json.RawMessage{}
	for k, cls := range r.Con {
		if k == nestedKey && r.TpiObj {
			sub := map[string]json.RawMessage{}
			for nk, ncls := range r.Tpi {
				if ncls == "std" {
					sub[nk] = stdSigned()
				} else {
					sub[nk] = realiseSpelt(ncls, nk, sp)
				}
			}
			m[k] = spellRawMap(sub, sp)
			continue
		}
		m[k] = realiseSpelt(cls, k, sp)
	}
	return spellRawMap(m, sp)
}

func realiseSpelt(cls, k string, sp int) json.RawMessage {
	if sp == 2 && cls == "esc" {
		return json.RawMessage("\"" + jsonInner(k) + "<b>&c\u2028d\\/\\u00e9\"")
	}
	return realise(cls, k)
}

// marshalRawMap writes an object without re-escaping the raw values (keys sorted).
func marshalRawMap(m map[string]json.RawMessage) json.RawMessage { return spellRawMap(m, 0) }

func spellRawMap(m map[string]json.RawMessage, sp int) json.RawMessage {
	keys := make([]string, 0, len(m))
	for k := range m {
		keys = append(keys, k)
	}
	sort.Strings(keys)
	sep, colon, open, shut := ",", ":", "{", "}"
	if sp == 1 {
		sort.Sort(sort.Reverse(sort.StringSlice(keys)))
		sep, colon, open, shut = " ,\n\t", " : ", "{ ", "\r\n}"
	}
	var b bytes.Buffer
	b.WriteString(open)
	for i, k := range keys {
		if i > 0 {
			b.WriteString(sep)
		}
		name := jsonInner(k)
		if rs := []rune(k); sp == 2 && len(rs) > 0 && rs[0] < 0x10000 {
			name = fmt.Sprintf("\\u%04x", rs[0]) + jsonInner(string(rs[1:]))
		}
		b.WriteString("\"" + name + "\"" + colon)
		b.Write(m[k])
	}
	b.WriteString(shut)
	return b.Bytes()
}

// rawEvent composes the JSON object of a raw-family scenario in the given spelling.
func rawEvent(r *rec, sp int) []byte {
	m := map[string]json.RawMessage{}
	for k, cls := range r.Top {
		switch k {
		case "type":
			m[k] = json.RawMessage("\"" + jsonInner(concreteType(r.Type, cls)) + "\"")
		case "content":
			m[k] = contentSpelt(r, sp)
		default:
			m[k] = realiseSpelt(cls, k, sp)
		}
	}
	return spellRawMap(m, sp)
}

// ---- well-formed PDUs -------------------------------------------------------------------------------

func hashOf(tag string, ver string) string {
	h := sha256sum([]byte(tag))
	switch {
	case isFormatV1(ver):
		return "$" + tag + ":" + hs1
	case ver == "3":
		return "$" + base64.RawStdEncoding.EncodeToString(h)
	}
	return "$" + base64.RawURLEncoding.EncodeToString(h)
}

// signers of an event of this version (the first is the sender's)
func signersFor(ver string) []signer {
	if ver == "org.matrix.msc4014" {
		return []signer{signerPseudo, signer2}
	}
	return []signer{signer1, signer2, signer1b}
}

// contentHash recomputes the `hashes` value of an event (content hash of the specification).
func contentHash(ev map[string]json.RawMessage) json.RawMessage {
	c := map[string]json.RawMessage{}
	for k, v := range ev {
		if k != "signatures" && k != "unsigned" && k != "hashes" {
			c[k] = v
		}
	}
	canon, err := gmsl.CanonicalJSON(marshalRawMap(c))
	if err != nil {
		panic(fmt.Sprintf("harness: canonical JSON of composed event: %v", err))
	}
	return json.RawMessage(`{"sha256":"` + base64.RawStdEncoding.EncodeToString(sha256sum(canon)) + `"}`)
}

// pduEvent builds the event of a pdu-family scenario: EventBuilder.Build produces the base PDU (event
// format of the version, content hash, first signature); the optional top-level keys of the scenario are
// then put in / taken out, the content hash is recomputed and the event is signed by both signers with
// PDU.Sign (which signs the redacted form).  Returns the event JSON; its top-level key set is exactly
// the scenario's.
func pduEvent(r *rec) ([]byte, gmsl.PDU) { return pduEventWith(r, signersFor(r.Ver), false) }

// pduEventWith: the same, signed by the given signers; moreHashes gives `hashes` a second member (so that a kept
// top-level value has two members whose order a spelling can change).
func pduEventWith(r *rec, signedBy []signer, moreHashes bool) ([]byte, gmsl.PDU) {
	ver := gmsl.MustGetRoomVersion(gmsl.RoomVersion(r.Ver))
	typ := concreteType(r.Type, r.Top["type"])
	pe := gmsl.ProtoEvent{
		SenderID:   senderFor(r.Ver),
		Type:       typ,
		Depth:      7,
		PrevEvents: []string{hashOf("prev", r.Ver)},
		AuthEvents: []string{hashOf("auth1", r.Ver), hashOf("auth2", r.Ver)},
		Content:    spec.RawJSON(contentJSON(r)),
	}
	if cls, ok := r.Top["state_key"]; ok {
		var sk string
		if err := json.Unmarshal(valueOfTop("state_key", cls), &sk); err != nil {
			panic(err)
		}
		pe.StateKey = &sk
	}
	if _, ok := r.Top["room_id"]; ok {
		if isDomainless(r.Ver) {
			pe.RoomID = room12
		} else {
			pe.RoomID = room
		}
	}
	now := fixedNow
	if r.Top["depth"] == "zero" {
		pe.Depth = 0
	}
	if r.Top["origin_server_ts"] == "zero" {
		now = time.UnixMilli(0)
	}
	first := signersFor(r.Ver)[0]
	built, err := ver.NewEventBuilderFromProtoEvent(&pe).Build(now, spec.ServerName(first.name), first.key, first.priv)
	if err != nil {
		panic(fmt.Sprintf("harness: EventBuilder.Build: %v", err))
	}
	var ev map[string]json.RawMessage
	if err := json.Unmarshal(built.JSON(), &ev); err != nil {
		panic(err)
	}
	for k := range ev {
		if _, ok := r.Top[k]; !ok {
			delete(ev, k) // Build always adds origin (and prev_state on state events)
		}
	}
	for k, cls := range r.Top {
		if _, have := ev[k]; have && cls == "std" {
			continue
		}
		if _, have := ev[k]; have && (k == "state_key" || k == "type") {
			continue // given to the builder
		}
		ev[k] = valueOfTop(k, cls)
	}
	delete(ev, "signatures")
	ev["hashes"] = contentHash(ev)
	if moreHashes {
		ev["hashes"] = json.RawMessage(`{"md5":"dmVyaWYtbWQ1LXZhbHVl",` + string(ev["hashes"][1:]))
	}
	p, err := ver.NewEventFromTrustedJSON(marshalRawMap(ev), false)
	if err != nil && r.Kind == "vocab" {
		// a vocabulary name may be a member the event parser types: values are opaque to redaction, so such a
		// key takes the first value class with which the event parses
		fitTypedKeys(r, ver, ev)
		ev["hashes"] = contentHash(ev)
		p, err = ver.NewEventFromTrustedJSON(marshalRawMap(ev), false)
	}
	if err != nil {
		panic(fmt.Sprintf("harness: composed event does not parse: %v: %s", err, marshalRawMap(ev)))
	}
	for _, s := range signedBy {
		p = p.Sign(s.name, s.key, s.priv)
	}
	return p.JSON(), built
}

// fitTypedKeys re-realises the additional top-level keys of a vocab record that keep the event from parsing.
func fitTypedKeys(r *rec, ver gmsl.IRoomVersion, ev map[string]json.RawMessage) {
	base := map[string]json.RawMessage{}
	var extras []string
	for k, v := range ev {
		switch k {
		case "type", "content", "sender", "room_id", "depth", "prev_events", "auth_events", "origin_server_ts", "hashes", "event_id", "state_key":
			base[k] = v
		default:
			extras = append(extras, k)
		}
	}
	sort.Strings(extras)
	for _, k := range extras {
		for _, cls := range []string{"", "esc", "zero", "obj", "eobj", "arr", "false", "null"} {
			if cls != "" {
				ev[k] = realise(cls, k)
			}
			base[k] = ev[k]
			_, err := ver.NewEventFromTrustedJSON(marshalRawMap(base), false)
			delete(base, k)
			if err == nil {
				break
			}
		}
	}
}

func valueOfTop(k, cls string) json.RawMessage {
	if cls == "std" {
		return stdTop(k)
	}
	return realise(cls, k)
}

// ---- scripted verifier ---------------------------------------------------------------------------------

// scriptedVerifier answers VerifyJSONs from a fixed table server name -> key (no key server involved).
type scriptedVerifier struct{ signers []signer }

func (v scriptedVerifier) VerifyJSONs(_ context.Context, reqs []gmsl.VerifyJSONRequest) ([]gmsl.VerifyJSONResult, error) {
	out := make([]gmsl.VerifyJSONResult, len(reqs))
	for i, rq := range reqs {
		out[i].Error = fmt.Errorf("no key known for %q", rq.ServerName)
		for _, s := range v.signers {
			if s.name == string(rq.ServerName) {
				// as a key ring does: any key of the server that verifies is enough
				if out[i].Error = gmsl.VerifyJSON(s.name, s.key, s.pub, rq.Message); out[i].Error == nil {
					break
				}
			}
		}
	}
	return out, nil
}

func identityQuerier(_ spec.RoomID, senderID spec.SenderID) (*spec.UserID, error) {
	return spec.NewUserID(string(senderID), true)
}
