package main

// The concrete world behind the vocabulary of spec/InviteFlow.tla: the inviting server A and the invited user's
// server B with real ed25519 keys, the users, and the room as A has it - built from the scenario with real, signed
// events in the scenario's room version (pseudo-ID rooms: senders and state keys are per-room keys, joins carry a
// signed mxid_mapping).  Helper code adapted from harness/cmd/c15 (world.go, pseudo.go).

import (
	"context"
	"crypto/ed25519"
	"crypto/sha256"
	"encoding/base64"
	"encoding/json"
	"errors"
	"fmt"
	"sort"
	"strings"
	"sync"
	"time"

	gmsl "github.com/matrix-org/gomatrixserverlib"
	"github.com/matrix-org/gomatrixserverlib/spec"
)

// Sc is the scenario record of InviteFlow.tla.
type Sc struct {
	Ver        string `json:"ver"`
	Local      bool   `json:"local"`
	Stripped   string `json:"stripped"`
	InviterMem string `json:"inviterMem"`
	InviteeMem string `json:"inviteeMem"`
	Race       string `json:"race"`
	PL         string `json:"pl"`
	Who        string `json:"who"`
	Env        string `json:"env"`
	NPrev      string `json:"nprev"`
	Remote     string `json:"remote"`
	BView      string `json:"bview"`
}

type server struct {
	name  spec.ServerName
	keyID gmsl.KeyID
	priv  ed25519.PrivateKey
	pub   ed25519.PublicKey
}

func mkServer(name, keyID string) *server {
	seed := sha256.Sum256([]byte("x05-key-" + name))
	priv := ed25519.NewKeyFromSeed(seed[:])
	return &server{name: spec.ServerName(name), keyID: gmsl.KeyID(keyID), priv: priv, pub: priv.Public().(ed25519.PublicKey)}
}

var (
	srvA = mkServer("a.test", "ed25519:a1")
	srvB = mkServer("b.test", "ed25519:b1")
)

const (
	userC      = "@c:a.test" // creator
	userP      = "@p:a.test" // the inviter when it is an ordinary member
	userX      = "@x:a.test" // a moderator of A (sender of bans of the creator)
	userILocal = "@i:a.test"
	userIRem   = "@i:b.test"
	userW      = "@w:b.test" // another user of B
	unknownVer = "x05.unknown"
	pseudoVer  = "org.matrix.msc4014"
)

// fixed instants: nothing depends on the wall clock but the validity window of the keys B's key ring serves
var t0 = time.Unix(1700000000, 0)
var tInvite = t0.Add(2 * time.Hour)

func domainless(ver string) bool { return ver == "12" || ver == "org.matrix.hydra.11" }

func serverOfUser(user string) *server {
	if strings.HasSuffix(user, ":"+string(srvB.name)) {
		return srvB
	}
	return srvA
}

func mustUserID(s string) spec.UserID {
	u, err := spec.NewUserID(s, true)
	if err != nil {
		panic(err)
	}
	return *u
}

func mustRoomID(s string) spec.RoomID {
	r, err := spec.NewRoomID(s)
	if err != nil {
		panic(fmt.Sprintf("room id %q: %v", s, err))
	}
	return *r
}

func strp(s string) *string { return &s }

// ---------------------------------------------------------------------------------------------------
// room keys (pseudo-ID rooms): deterministic per user

var (
	roomKeyMu sync.Mutex
	roomKeys  = map[string]ed25519.PrivateKey{}
	sidToUser = map[string]string{}
)

func roomKey(user string) ed25519.PrivateKey {
	roomKeyMu.Lock()
	defer roomKeyMu.Unlock()
	k, ok := roomKeys[user]
	if !ok {
		seed := sha256.Sum256([]byte("x05-roomkey-" + user))
		k = ed25519.NewKeyFromSeed(seed[:])
		roomKeys[user] = k
		sidToUser[string(spec.SenderIDFromPseudoIDKey(k))] = user
	}
	return k
}

func pseudoSID(user string) string { return string(spec.SenderIDFromPseudoIDKey(roomKey(user))) }

func userOfSID(sid string) (string, bool) {
	roomKeyMu.Lock()
	defer roomKeyMu.Unlock()
	u, ok := sidToUser[sid]
	return u, ok
}

func pseudoSigner(user string) *server {
	k := roomKey(user)
	return &server{name: spec.ServerName(pseudoSID(user)), keyID: "ed25519:1", priv: k, pub: k.Public().(ed25519.PublicKey)}
}

func mapping(user string) *gmsl.MXIDMapping {
	m := &gmsl.MXIDMapping{UserRoomKey: spec.SenderID(pseudoSID(user)), UserID: user}
	S := serverOfUser(user)
	if err := m.Sign(S.name, S.keyID, S.priv); err != nil {
		panic(err)
	}
	return m
}

// ---------------------------------------------------------------------------------------------------
// the room on A

type world struct {
	key       string
	ver       gmsl.RoomVersion // the version the room is built in ("10" for the unknown version)
	impl      gmsl.IRoomVersion
	pseudo    bool
	room      string
	other     string // another well-formed room ID
	inviter   string
	invitee   string
	create    gmsl.PDU
	pl        gmsl.PDU // nil: the room has no power-level event
	jr        gmsl.PDU
	name      gmsl.PDU
	creatorEv gmsl.PDU // membership event of the creator (nil: none)
	inviterEv gmsl.PDU // membership event of the inviter (= creatorEv when the creator invites; nil: none)
	inviteeEv gmsl.PDU // membership event of the invitee (nil: none)
	depth     int64
	last      string
}

func (w *world) sid(user string) string {
	if w.pseudo && strings.HasPrefix(user, "@") {
		return pseudoSID(user)
	}
	return user
}

// signerOf: who signs an event sent by user (the user's server; in a pseudo-ID room the user's room key)
func (w *world) signerOf(user string) *server {
	if w.pseudo {
		return pseudoSigner(user)
	}
	return serverOfUser(user)
}

func (w *world) authIDs(evs ...gmsl.PDU) []string {
	out := []string{}
	for _, e := range evs {
		if e == nil {
			continue
		}
		if domainless(string(w.ver)) && e.Type() == spec.MRoomCreate {
			continue
		}
		out = append(out, e.EventID())
	}
	return out
}

// mk builds a real, signed state event on top of the room so far.  sender / state key are user IDs; they are
// translated for pseudo-ID rooms.
func (w *world) mk(typ string, skey *string, sender string, content map[string]interface{}, auth []string) gmsl.PDU {
	if w.pseudo {
		switch typ {
		case spec.MRoomCreate:
			content["creator"] = pseudoSID(userC)
		case spec.MRoomPowerLevels:
			if users, ok := content["users"].(map[string]int); ok {
				tr := map[string]int{}
				for u, l := range users {
					tr[pseudoSID(u)] = l
				}
				content["users"] = tr
			}
		case spec.MRoomMember:
			if content["membership"] == "join" && skey != nil {
				content["mxid_mapping"] = mapping(*skey)
			}
		}
	}
	if skey != nil && strings.HasPrefix(*skey, "@") {
		skey = strp(w.sid(*skey))
	}
	cb, err := json.Marshal(content)
	if err != nil {
		panic(err)
	}
	w.depth++
	prev := []string{}
	if w.last != "" {
		prev = []string{w.last}
	}
	room := w.room
	proto := gmsl.ProtoEvent{SenderID: w.sid(sender), RoomID: room, Type: typ, StateKey: skey, PrevEvents: prev, AuthEvents: auth,
		Depth: w.depth, Content: cb}
	signer := w.signerOf(sender)
	ev, err := w.impl.NewEventBuilderFromProtoEvent(&proto).Build(t0.Add(time.Duration(w.depth)*time.Second), signer.name, signer.keyID, signer.priv)
	if err != nil {
		panic(fmt.Sprintf("x05: cannot build %s event (v%s): %v", typ, w.ver, err))
	}
	w.last = ev.EventID()
	return ev
}

func member(m string) map[string]interface{} { return map[string]interface{}{"membership": m} }

// memberEvent materialises "user has membership m" as the event that would have produced it
func (w *world) memberEvent(user, m string, by string) gmsl.PDU {
	switch m {
	case "none":
		return nil
	case "join", "leave":
		return w.mk(spec.MRoomMember, strp(user), user, member(m), w.authIDs(w.create, w.pl, w.jr))
	case "invite", "ban":
		return w.mk(spec.MRoomMember, strp(user), by, member(m), w.authIDs(w.create, w.pl, w.jr, w.creatorEv))
	}
	panic("x05: unknown membership class " + m)
}

var (
	cacheMu    sync.Mutex
	worldCache = map[string]*world{}
)

// worldFor builds (or fetches) the room of a scenario.  Worlds are immutable once built.
func worldFor(sc Sc) *world {
	key := fmt.Sprintf("%s|%v|%s|%s|%s|%s", sc.Ver, sc.Local, sc.InviterMem, sc.InviteeMem, sc.PL, sc.Who)
	cacheMu.Lock()
	defer cacheMu.Unlock()
	if w, ok := worldCache[key]; ok {
		return w
	}
	w := buildWorld(sc)
	w.key = key
	worldCache[key] = w
	return w
}

func buildWorld(sc Sc) *world {
	ver := sc.Ver
	if ver == unknownVer {
		ver = "10"
	}
	w := &world{ver: gmsl.RoomVersion(ver), pseudo: ver == pseudoVer}
	impl, err := gmsl.GetRoomVersion(w.ver)
	if err != nil {
		panic(err)
	}
	w.impl = impl
	w.inviter = userP
	if sc.Who == "creator" {
		w.inviter = userC
	}
	w.invitee = userIRem
	if sc.Local {
		w.invitee = userILocal
	}
	priv := domainless(ver)

	// create
	cc := map[string]interface{}{"room_version": ver}
	if !priv {
		cc["creator"] = userC
		w.room = "!x05:a.test"
		w.other = "!x05other:a.test"
		w.create = w.mk(spec.MRoomCreate, strp(""), userC, cc, []string{})
	} else {
		w.other = "!" + strings.Repeat("B", 43)
		w.create = w.mk(spec.MRoomCreate, strp(""), userC, cc, []string{})
		w.room = "!" + w.create.EventID()[1:]
	}
	// the creator's own membership: join, unless the creator is the inviter and the scenario says otherwise
	cm := "join"
	if sc.Who == "creator" {
		cm = sc.InviterMem
	}
	switch cm {
	case "none":
	case "join", "leave":
		w.creatorEv = w.mk(spec.MRoomMember, strp(userC), userC, member(cm), w.authIDs(w.create))
	default: // invite / ban of the creator by a moderator
		w.creatorEv = w.mk(spec.MRoomMember, strp(userC), userX, member(cm), w.authIDs(w.create))
	}
	// power levels: inviting needs 50
	if sc.PL != "none" {
		level := map[string]int{"above": 75, "equal": 50, "below": 49}[sc.PL]
		users := map[string]int{}
		if sc.Who == "creator" {
			if !priv { // a privileged creator is never listed
				users[userC] = level
			}
		} else {
			if !priv {
				users[userC] = 100
			}
			users[userP] = level
		}
		w.pl = w.mk(spec.MRoomPowerLevels, strp(""), userC,
			map[string]interface{}{"users": users, "users_default": 0, "invite": 50, "state_default": 50, "events_default": 0,
				"ban": 50, "kick": 50, "redact": 50},
			w.authIDs(w.create, w.creatorEv))
	}
	w.jr = w.mk(spec.MRoomJoinRules, strp(""), userC, map[string]interface{}{"join_rule": "invite"}, w.authIDs(w.create, w.pl, w.creatorEv))
	w.name = w.mk(spec.MRoomName, strp(""), userC, map[string]interface{}{"name": "x05 room"}, w.authIDs(w.create, w.pl, w.creatorEv))
	if sc.Who == "creator" {
		w.inviterEv = w.creatorEv
	} else {
		w.inviterEv = w.memberEvent(userP, sc.InviterMem, userC)
	}
	w.inviteeEv = w.memberEvent(w.invitee, sc.InviteeMem, userC)
	return w
}

// state is the current room state on A
func (w *world) state() []gmsl.PDU {
	out := []gmsl.PDU{w.create}
	for _, e := range []gmsl.PDU{w.pl, w.jr, w.name, w.creatorEv} {
		if e != nil {
			out = append(out, e)
		}
	}
	if w.inviterEv != nil && w.inviterEv != w.creatorEv {
		out = append(out, w.inviterEv)
	}
	if w.inviteeEv != nil {
		out = append(out, w.inviteeEv)
	}
	return out
}

func filterState(state []gmsl.PDU, wanted []gmsl.StateKeyTuple) []gmsl.PDU {
	out := []gmsl.PDU{}
	for _, e := range state {
		for _, t := range wanted {
			if e.Type() == t.EventType && e.StateKeyEquals(t.StateKey) {
				out = append(out, e)
				break
			}
		}
	}
	return out
}

// latestIDs: the forward extremities the event querier reports: the real last event and n-1 well-formed others
func (w *world) latestIDs(n int) []string {
	out := []string{w.last}
	for i := 1; i < n; i++ {
		h := sha256.Sum256([]byte(fmt.Sprintf("x05-prev-%d", i)))
		switch string(w.ver) {
		case "1", "2":
			out = append(out, fmt.Sprintf("$x05prev%d:a.test", i))
		case "3":
			out = append(out, "$"+base64.RawStdEncoding.EncodeToString(h[:]))
		default:
			out = append(out, "$"+base64.RawURLEncoding.EncodeToString(h[:]))
		}
	}
	return out
}

// stripped state: what the caller supplies (create, join rules) and what A's state yields for the types the
// client-server API names (here: name, join rules, create)
func stripOf(evs ...gmsl.PDU) []gmsl.InviteStrippedState {
	out := []gmsl.InviteStrippedState{}
	for _, e := range evs {
		out = append(out, gmsl.NewInviteStrippedState(e))
	}
	return out
}

func (w *world) suppliedStripped() []gmsl.InviteStrippedState  { return stripOf(w.create, w.jr) }
func (w *world) generatedStripped() []gmsl.InviteStrippedState { return stripOf(w.name, w.jr, w.create) }

// canonSet renders a list of JSON values as a sorted list of canonical JSON strings
func canonSet(raw []byte) ([]string, bool) {
	var items []json.RawMessage
	if err := json.Unmarshal(raw, &items); err != nil {
		return nil, false
	}
	out := []string{}
	for _, it := range items {
		c, err := gmsl.CanonicalJSON(it)
		if err != nil {
			return nil, false
		}
		out = append(out, string(c))
	}
	sort.Strings(out)
	return out, true
}

func sameStrings(a, b []string) bool {
	if len(a) != len(b) {
		return false
	}
	for i := range a {
		if a[i] != b[i] {
			return false
		}
	}
	return true
}

// irsClass names a stripped-state list: supplied | generated | forged | none
func (w *world) irsClass(raw []byte) string {
	if len(raw) == 0 {
		return "none"
	}
	got, ok := canonSet(raw)
	if !ok {
		return "forged"
	}
	for _, c := range []struct {
		name string
		list []gmsl.InviteStrippedState
	}{{"supplied", w.suppliedStripped()}, {"generated", w.generatedStripped()}} {
		b, _ := json.Marshal(c.list)
		want, _ := canonSet(b)
		if sameStrings(got, want) {
			return c.name
		}
	}
	return "forged"
}

// ---------------------------------------------------------------------------------------------------
// keys: a real KeyRing over a scripted key database (B verifies A's signature through it)

type keyDB struct{}

func (db *keyDB) FetcherName() string { return "x05db" }

func (db *keyDB) FetchKeys(ctx context.Context, reqs map[gmsl.PublicKeyLookupRequest]spec.Timestamp) (map[gmsl.PublicKeyLookupRequest]gmsl.PublicKeyLookupResult, error) {
	out := map[gmsl.PublicKeyLookupRequest]gmsl.PublicKeyLookupResult{}
	for req := range reqs {
		for _, s := range []*server{srvA, srvB} {
			if req.ServerName == s.name && req.KeyID == s.keyID {
				out[req] = gmsl.PublicKeyLookupResult{VerifyKey: gmsl.VerifyKey{Key: spec.Base64Bytes(s.pub)},
					ExpiredTS: gmsl.PublicKeyNotExpired, ValidUntilTS: spec.AsTimestamp(time.Now().Add(48 * time.Hour))}
			}
		}
	}
	return out, nil
}

func (db *keyDB) StoreKeys(ctx context.Context, r map[gmsl.PublicKeyLookupRequest]gmsl.PublicKeyLookupResult) error {
	return nil
}

func keyRing() *gmsl.KeyRing {
	return &gmsl.KeyRing{KeyFetchers: []gmsl.KeyFetcher{}, KeyDatabase: &keyDB{}}
}

// validSig: an independent signature check - ed25519 over the canonical redacted event without signatures / unsigned,
// signature entry (name, keyID), public key pub
func validSig(impl gmsl.IRoomVersion, eventJSON []byte, name string, keyID gmsl.KeyID, pub ed25519.PublicKey) bool {
	red, err := impl.RedactEventJSON(eventJSON)
	if err != nil {
		return false
	}
	var m map[string]json.RawMessage
	if err := json.Unmarshal(red, &m); err != nil {
		return false
	}
	var sigs map[string]map[string]string
	if raw, ok := m["signatures"]; ok {
		if err := json.Unmarshal(raw, &sigs); err != nil {
			return false
		}
	}
	delete(m, "signatures")
	delete(m, "unsigned")
	b, err := json.Marshal(m)
	if err != nil {
		return false
	}
	canon, err := gmsl.CanonicalJSON(b)
	if err != nil {
		return false
	}
	sig, ok := sigs[name][string(keyID)]
	if !ok {
		return false
	}
	raw, err := base64.RawStdEncoding.DecodeString(sig)
	if err != nil {
		return false
	}
	return len(pub) == ed25519.PublicKeySize && ed25519.Verify(pub, canon, raw)
}

// refIDs reads auth_events / prev_events from raw JSON: ["$id", ...] or [["$id", {...}], ...]
func refIDs(raw json.RawMessage) []string {
	var items []json.RawMessage
	if err := json.Unmarshal(raw, &items); err != nil {
		return nil
	}
	out := []string{}
	for _, it := range items {
		var s string
		if json.Unmarshal(it, &s) == nil {
			out = append(out, s)
			continue
		}
		var pair []json.RawMessage
		if json.Unmarshal(it, &pair) == nil && len(pair) > 0 && json.Unmarshal(pair[0], &s) == nil {
			out = append(out, s)
		}
	}
	return out
}

func errClass(err error) string {
	if err == nil {
		return ""
	}
	var ir spec.IncompatibleRoomVersionError
	if errors.As(err, &ir) {
		return string(ir.ErrCode)
	}
	var me spec.MatrixError
	if errors.As(err, &me) {
		return string(me.ErrCode)
	}
	var ie spec.InternalServerError
	if errors.As(err, &ie) {
		return "internal"
	}
	return "error"
}
