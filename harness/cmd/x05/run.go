package main

// One real PerformInvite call per record: A's scripted queriers (observed: order of the auth check and the send, the
// event A built), and the federation client that stands for the network and B.

import (
	"context"
	"crypto/ed25519"
	"encoding/json"
	"errors"
	"fmt"
	"reflect"
	"strings"
	"sync"
	"time"

	gmsl "github.com/matrix-org/gomatrixserverlib"
	"github.com/matrix-org/gomatrixserverlib/spec"
	"github.com/tidwall/gjson"
	"github.com/tidwall/sjson"
)

type sentMsg struct {
	api      string
	event    []byte           // v2: the event JSON
	proto    *gmsl.ProtoEvent // v3: the proto event
	stripped []byte           // JSON of the stripped state handed to the client
}

type run struct {
	sc       Sc
	w        *world
	mu       sync.Mutex
	order    []string // "check" / "send"
	checked  gmsl.PDU // the event handed to GetAuthEvents (the event A built / countersigned)
	sent     []sentMsg
	answered string // none | event | refused | error
	stored   map[string]string
	needed   []gmsl.StateKeyTuple
	depth    int64
	latest   []string
}

func (r *run) logStep(s string) {
	r.mu.Lock()
	r.order = append(r.order, s)
	r.mu.Unlock()
}

// --------------------------------------------------------------------------------------------------- A's queriers

func (r *run) GetAuthEvents(ctx context.Context, event gmsl.PDU) (gmsl.AuthEventProvider, error) {
	r.logStep("check")
	r.checked = event
	if r.sc.Env == "auth_err" {
		return nil, errors.New("x05: auth events unavailable")
	}
	return gmsl.NewAuthEvents(r.w.state())
}

func (r *run) GetState(ctx context.Context, roomID spec.RoomID, wanted []gmsl.StateKeyTuple) ([]gmsl.PDU, error) {
	if r.sc.Env == "state_err" {
		return nil, errors.New("x05: state unavailable")
	}
	// in the order the room has them (name, join rules, create are the ones that exist)
	return filterState([]gmsl.PDU{r.w.name, r.w.jr, r.w.create}, wanted), nil
}

func (r *run) CurrentMembership(ctx context.Context, roomID spec.RoomID, senderID spec.SenderID) (string, error) {
	if r.sc.Env == "mem_err" {
		return "", errors.New("x05: membership unavailable")
	}
	if string(senderID) != r.w.sid(r.w.invitee) {
		return "", fmt.Errorf("x05: membership of %s asked, not of the invitee", senderID)
	}
	if r.sc.Race == "yes" {
		return spec.Join, nil
	}
	if r.sc.InviteeMem == "none" {
		return "", nil
	}
	return r.sc.InviteeMem, nil
}

// inviteeKnown: A has a sender ID for the invitee in this room
func (r *run) inviteeKnown() bool {
	return !r.w.pseudo || r.sc.InviteeMem != "none" || r.sc.Race == "yes"
}

func (r *run) senderIDForUser(roomID spec.RoomID, userID spec.UserID) (*spec.SenderID, error) {
	if r.sc.Env == "sid_err" {
		return nil, errors.New("x05: sender IDs unavailable")
	}
	if r.w.pseudo && userID.String() == r.w.invitee && !r.inviteeKnown() {
		return nil, nil
	}
	s := spec.SenderID(r.w.sid(userID.String()))
	return &s, nil
}

func (r *run) userIDForSender(roomID spec.RoomID, senderID spec.SenderID) (*spec.UserID, error) {
	if !r.w.pseudo {
		return spec.NewUserID(string(senderID), true)
	}
	r.mu.Lock()
	u, ok := r.stored[string(senderID)]
	r.mu.Unlock()
	if !ok {
		u, ok = userOfSID(string(senderID))
	}
	if !ok {
		return nil, nil
	}
	return spec.NewUserID(u, true)
}

func (r *run) createSenderID(ctx context.Context, userID spec.UserID, roomID spec.RoomID, roomVersion string) (spec.SenderID, ed25519.PrivateKey, error) {
	if r.sc.Env == "creator_err" {
		return "", nil, errors.New("x05: cannot create a room key")
	}
	if !r.w.pseudo {
		return spec.SenderID(userID.String()), srvA.priv, nil
	}
	k := roomKey(userID.String())
	return spec.SenderIDFromPseudoIDKey(k), k, nil
}

func (r *run) storeSenderID(ctx context.Context, senderID spec.SenderID, userID string, id spec.RoomID) error {
	if r.sc.Env == "store_err" {
		return errors.New("x05: cannot store the sender ID")
	}
	r.mu.Lock()
	r.stored[string(senderID)] = userID
	r.mu.Unlock()
	return nil
}

func (r *run) latestEvents(ctx context.Context, roomID spec.RoomID, needed []gmsl.StateKeyTuple) (gmsl.LatestEvents, error) {
	r.needed = needed
	switch r.sc.Env {
	case "latest_err":
		return gmsl.LatestEvents{}, errors.New("x05: latest events unavailable")
	case "noroom":
		return gmsl.LatestEvents{RoomExists: false}, nil
	}
	return gmsl.LatestEvents{RoomExists: true, StateEvents: filterState(r.w.state(), needed), PrevEventIDs: append([]string(nil), r.latest...),
		Depth: r.depth}, nil
}

// --------------------------------------------------------------------------------------------------- the call

func nprevOf(c string) int {
	switch c {
	case "twenty":
		return 20
	case "over":
		return 23
	}
	return 1
}

func (r *run) input() gmsl.PerformInviteInput {
	w := r.w
	r.latest = w.latestIDs(nprevOf(r.sc.NPrev))
	r.depth = w.depth + 7 // the depth the querier reports (not derivable from anything else)
	skey := w.invitee
	if w.pseudo {
		skey = ""
		if r.inviteeKnown() {
			skey = pseudoSID(w.invitee)
		}
	}
	in := gmsl.PerformInviteInput{
		RoomID:        mustRoomID(w.room),
		RoomVersion:   gmsl.RoomVersion(r.sc.Ver),
		Inviter:       mustUserID(w.inviter),
		Invitee:       mustUserID(w.invitee),
		IsTargetLocal: r.sc.Local,
		EventTemplate: gmsl.ProtoEvent{SenderID: w.sid(w.inviter), RoomID: w.room, Type: spec.MRoomMember, StateKey: strp(skey),
			Content: []byte(`{"membership":"invite"}`)},
		KeyID:                     srvA.keyID,
		SigningKey:                srvA.priv,
		EventTime:                 tInvite,
		MembershipQuerier:         r,
		StateQuerier:              r,
		UserIDQuerier:             r.userIDForSender,
		SenderIDQuerier:           r.senderIDForUser,
		SenderIDCreator:           r.createSenderID,
		EventQuerier:              r.latestEvents,
		StoreSenderIDFromPublicID: r.storeSenderID,
	}
	if w.pseudo { // the inviter signs with its room key
		in.KeyID = "ed25519:1"
		in.SigningKey = roomKey(w.inviter)
	}
	if r.sc.Stripped == "supplied" {
		in.StrippedState = w.suppliedStripped()
	}
	// a checkout whose PerformInviteInput can be given a verifier for B's signature (proposed_fixes/X05-1.diff) gets
	// A's key ring; the pinned tree has no such field
	if f := reflect.ValueOf(&in).Elem().FieldByName("Verifier"); f.IsValid() && f.CanSet() {
		f.Set(reflect.ValueOf(keyRing()))
	}
	return in
}

// --------------------------------------------------------------------------------------------------- network and B

func (r *run) record(m sentMsg, stripped []gmsl.InviteStrippedState) {
	b, err := json.Marshal(stripped)
	if err != nil {
		panic(err)
	}
	m.stripped = b
	r.logStep("send")
	r.mu.Lock()
	r.sent = append(r.sent, m)
	r.mu.Unlock()
}

// clientMode: "" (transparent) | "untrusted"
var clientMode string

type netError struct{ what string }

func (e netError) Error() string { return "x05: " + e.what }

// parseAnswer is what A's federation client does with the body of B's 200 answer: the event must parse as an
// untrusted event of the room version (fields, content hash).  In mode "untrusted" that parse is what the client
// returns (as Dendrite's does; it drops "unsigned"); by default the client hands B's answer on as B sent it.
func (r *run) parseAnswer(js []byte) (gmsl.PDU, error) {
	ev, err := r.w.impl.NewEventFromUntrustedJSON(js)
	if err == nil && clientMode != "untrusted" {
		ev, err = r.w.impl.NewEventFromTrustedJSON(js, false)
	}
	if err != nil {
		r.answered = "error"
		return nil, netError{"unparsable answer: " + err.Error()}
	}
	r.answered = "event"
	return ev, nil
}

// SendInvite: PUT /_matrix/federation/v2/invite
func (r *run) SendInvite(ctx context.Context, event gmsl.PDU, stripped []gmsl.InviteStrippedState) (gmsl.PDU, error) {
	sent := append([]byte(nil), event.JSON()...)
	r.record(sentMsg{api: "v2", event: sent}, stripped)
	w := r.w
	switch r.sc.Remote {
	case "neterr":
		r.answered = "error"
		return nil, netError{"connection refused"}
	case "honest", "other_irs":
		out, err := r.honestV2(sent, stripped)
		if err != nil {
			r.answered = "refused"
			return nil, netError{"remote refused: " + err.Error()}
		}
		js := out.JSON()
		if r.sc.Remote == "other_irs" {
			js = forgeIRS(js)
		}
		return r.parseAnswer(js)
	case "echo":
		return r.parseAnswer(sent)
	case "strip_a_sig":
		js, err := sjson.DeleteBytes(sent, "signatures."+escapeKey(string(srvA.name)))
		if err != nil {
			panic(err)
		}
		ev, err := w.impl.NewEventFromTrustedJSON(js, false)
		if err != nil {
			panic(err)
		}
		return r.parseAnswer(ev.Sign(string(srvB.name), srvB.keyID, srvB.priv).JSON())
	case "unsigned":
		js, err := sjson.SetRawBytes(sent, "signatures", []byte(`{}`))
		if err != nil {
			panic(err)
		}
		return r.parseAnswer(js)
	case "other_user":
		// an earlier, genuine invite of the same inviter for another user of B: signed by A and by B
		p := r.protoOf(event)
		p.StateKey = strp(userW)
		ev, err := w.impl.NewEventBuilderFromProtoEvent(&p).Build(tInvite.Add(-time.Hour), srvA.name, srvA.keyID, srvA.priv)
		if err != nil {
			panic(err)
		}
		return r.parseAnswer(ev.Sign(string(srvB.name), srvB.keyID, srvB.priv).JSON())
	}
	// another event: the one that was sent with one field changed, hashed and signed by B; A's signature entry is
	// carried along (it no longer covers the event)
	p := r.protoOf(event)
	switch r.sc.Remote {
	case "other_room":
		p.RoomID = w.other
	case "other_type":
		p.Type = "m.room.topic"
	case "other_skey":
		p.StateKey = strp(userW)
	case "non_invite":
		p.Content = []byte(`{"membership":"join"}`)
	default:
		panic("x05: unknown remote behaviour " + r.sc.Remote)
	}
	ev, err := w.impl.NewEventBuilderFromProtoEvent(&p).Build(tInvite, srvB.name, srvB.keyID, srvB.priv)
	if err != nil {
		panic(fmt.Sprintf("x05: cannot build the %s answer: %v", r.sc.Remote, err))
	}
	js := ev.JSON()
	if sig := gjson.GetBytes(sent, "signatures."+escapeKey(string(srvA.name))); sig.Exists() {
		js, err = sjson.SetRawBytes(js, "signatures."+escapeKey(string(srvA.name)), []byte(sig.Raw))
		if err != nil {
			panic(err)
		}
	}
	return r.parseAnswer(js)
}

func escapeKey(k string) string { return strings.ReplaceAll(k, ".", `\.`) }

func forgeIRS(js []byte) []byte {
	out, err := sjson.SetRawBytes(js, "unsigned.invite_room_state",
		[]byte(`[{"type":"m.room.name","state_key":"","sender":"@evil:b.test","content":{"name":"forged"}}]`))
	if err != nil {
		panic(err)
	}
	return out
}

// protoOf: the fields of an event as a proto event (references as plain IDs)
func (r *run) protoOf(ev gmsl.PDU) gmsl.ProtoEvent {
	return gmsl.ProtoEvent{SenderID: string(ev.SenderID()), RoomID: ev.RoomID().String(), Type: ev.Type(), StateKey: ev.StateKey(),
		PrevEvents: ev.PrevEventIDs(), AuthEvents: refIDs(json.RawMessage(gjson.GetBytes(ev.JSON(), "auth_events").Raw)),
		Depth: ev.Depth(), Content: ev.Content(), Unsigned: ev.Unsigned()}
}

type roomQuerier struct{ known bool }

func (q roomQuerier) IsKnownRoom(ctx context.Context, roomID spec.RoomID) (bool, error) {
	return q.known, nil
}

type bMembership struct{ joined bool }

func (m bMembership) CurrentMembership(ctx context.Context, roomID spec.RoomID, senderID spec.SenderID) (string, error) {
	if m.joined {
		return spec.Join, nil
	}
	return "", nil
}

// bState: B's own copy of the room (when it knows the room)
type bState struct{ w *world }

func (s bState) GetAuthEvents(ctx context.Context, event gmsl.PDU) (gmsl.AuthEventProvider, error) {
	return gmsl.NewAuthEvents(s.w.state())
}

func (s bState) GetState(ctx context.Context, roomID spec.RoomID, wanted []gmsl.StateKeyTuple) ([]gmsl.PDU, error) {
	return filterState(s.w.state(), wanted), nil
}

func (r *run) handleInput(room string, stripped []gmsl.InviteStrippedState) gmsl.HandleInviteInput {
	w := r.w
	// the stripped state travels as JSON
	var viaWire []gmsl.InviteStrippedState
	if b, err := json.Marshal(stripped); err == nil {
		_ = json.Unmarshal(b, &viaWire)
	}
	return gmsl.HandleInviteInput{
		RoomID:            mustRoomID(room),
		RoomVersion:       w.ver,
		InvitedUser:       mustUserID(w.invitee),
		InvitedSenderID:   spec.SenderID(w.sid(w.invitee)),
		StrippedState:     viaWire,
		KeyID:             srvB.keyID,
		PrivateKey:        srvB.priv,
		Verifier:          keyRing(),
		RoomQuerier:       roomQuerier{r.sc.BView != "fresh"},
		MembershipQuerier: bMembership{r.sc.BView == "joined"},
		StateQuerier:      bState{w},
		UserIDQuerier:     r.userIDForSender,
	}
}

// honestV2: B's federation layer parses the body in the room version the request names and runs the real HandleInvite
func (r *run) honestV2(sent []byte, stripped []gmsl.InviteStrippedState) (gmsl.PDU, error) {
	ev, err := r.w.impl.NewEventFromUntrustedJSON(sent)
	if err != nil {
		return nil, err
	}
	in := r.handleInput(ev.RoomID().String(), stripped)
	in.InviteEvent = ev
	out, err := gmsl.HandleInvite(context.Background(), in)
	if err != nil {
		return nil, err
	}
	if out == nil {
		return nil, errors.New("HandleInvite returned neither an event nor an error")
	}
	return out, nil
}

// SendInviteV3: PUT /_matrix/federation/v3/invite (pseudo-ID rooms)
func (r *run) SendInviteV3(ctx context.Context, proto gmsl.ProtoEvent, userID spec.UserID, roomVersion gmsl.RoomVersion, stripped []gmsl.InviteStrippedState) (gmsl.PDU, error) {
	// the proto event travels as JSON
	b, err := json.Marshal(proto)
	if err != nil {
		panic(err)
	}
	var p gmsl.ProtoEvent
	if err := json.Unmarshal(b, &p); err != nil {
		panic(err)
	}
	cp := p
	r.record(sentMsg{api: "v3", proto: &cp}, stripped)
	w := r.w
	ikey := roomKey(w.invitee)
	isid := string(spec.SenderIDFromPseudoIDKey(ikey))
	switch r.sc.Remote {
	case "neterr":
		r.answered = "error"
		return nil, netError{"connection refused"}
	case "honest", "other_irs", "unsigned":
		in := gmsl.HandleInviteV3Input{
			HandleInviteInput: r.handleInput(p.RoomID, stripped),
			InviteProtoEvent:  p,
			GetOrCreateSenderID: func(ctx context.Context, userID spec.UserID, roomID spec.RoomID, roomVersion string) (spec.SenderID, ed25519.PrivateKey, error) {
				return spec.SenderID(isid), ikey, nil
			},
		}
		in.HandleInviteInput.InvitedUser = userID
		out, err := gmsl.HandleInviteV3(context.Background(), in)
		if err != nil || out == nil {
			r.answered = "refused"
			return nil, netError{fmt.Sprintf("remote refused: %v", err)}
		}
		js := out.JSON()
		switch r.sc.Remote {
		case "other_irs":
			js = forgeIRS(js)
		case "unsigned":
			if js, err = sjson.SetRawBytes(js, "signatures", []byte(`{}`)); err != nil {
				panic(err)
			}
		}
		return r.parseAnswer(js)
	}
	p.StateKey = strp(isid)
	switch r.sc.Remote {
	case "no_skey":
		p.StateKey = nil
	case "other_room":
		p.RoomID = w.other
	case "other_type":
		p.Type = "m.room.topic"
	case "non_invite":
		p.Content = []byte(`{"membership":"join"}`)
	case "other_sender":
		p.SenderID = pseudoSID(userW)
	default:
		panic("x05: unknown remote behaviour " + r.sc.Remote)
	}
	ev, err := w.impl.NewEventBuilderFromProtoEvent(&p).Build(tInvite, spec.ServerName(isid), "ed25519:1", ikey)
	if err != nil {
		panic(fmt.Sprintf("x05: cannot build the %s answer: %v", r.sc.Remote, err))
	}
	return r.parseAnswer(ev.JSON())
}
