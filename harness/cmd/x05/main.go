// Command x05 binds spec/InviteFlow.tla (growth specification X05: the invite handshake seen from the inviting
// server) to the real gomatrixserverlib.PerformInvite, with the invited server played by the real HandleInvite /
// HandleInviteV3 (honest behaviour) or by a scripted misbehaving server.
//
//	x05 x05 -in records.ndjson    replay InviteFlow_gen behaviours: one room per scenario built from real, signed
//	                              events in the scenario's room version, real ed25519 keys for both servers (and
//	                              room keys in pseudo-ID rooms), scripted queriers for A; one real PerformInvite
//	                              call per record; outcome, wire, references, order and the returned event compared
package main

import (
	"encoding/json"
	"io"

	"github.com/sirupsen/logrus"

	"verifharness/hx"
)

func main() {
	logrus.SetOutput(io.Discard) // PerformInvite / HandleInvite log every refusal
	hx.Register("x05", "replay InviteFlow_gen.tla behaviours against PerformInvite <-> HandleInvite / HandleInviteV3", func(a *hx.Args) error {
		clientMode = a.Mode
		return hx.ReplayAll(a, func(i int, raw json.RawMessage) hx.Result { return replay(raw) })
	})
	hx.Main()
}
