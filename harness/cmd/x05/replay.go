package main

// Replay of one InviteFlow_gen record: run the real PerformInvite, project what happened to the vocabulary of the
// specification and compare.

import (
	"context"
	"crypto/ed25519"
	"encoding/json"
	"fmt"
	"sort"
	"strings"

	gmsl "github.com/matrix-org/gomatrixserverlib"
	"github.com/matrix-org/gomatrixserverlib/spec"
	"github.com/tidwall/gjson"

	"verifharness/hx"
)

// AbsEv is the description of an event in InviteFlow.tla
type AbsEv struct {
	Room   string `json:"room"`
	Type   string `json:"type"`
	Skey   string `json:"skey"`
	Mship  string `json:"mship"`
	Sender string `json:"sender"`
	Same   bool   `json:"same"`
	SigA   bool   `json:"sigA"`
	SigB   bool   `json:"sigB"`
	IRS    string `json:"irs"`
}

type Rec struct {
	Ver   string `json:"ver"`
	Local bool   `json:"local"`
	Sc    Sc     `json:"sc"`
	Out   struct {
		Res string `json:"res"`
		Why string `json:"why"`
	} `json:"out"`
	Reasons []string `json:"reasons"`
	Sent    []struct {
		API  string `json:"api"`
		Ev   string `json:"ev"`
		SigA bool   `json:"sigA"`
		IRS  string `json:"irs"`
	} `json:"sent"`
	Built struct {
		Present bool     `json:"present"`
		Auth    []string `json:"auth"`
		NPrev   int      `json:"nprev"`
		NLatest int      `json:"nlatest"`
		Depth   string   `json:"depth"`
		Skey    string   `json:"skey"`
	} `json:"built"`
	Order     []string `json:"order"`
	Answered  string   `json:"answered"`
	MayRepair bool     `json:"mayrepair"`
	Good      AbsEv    `json:"good"`
	Ret       AbsEv    `json:"ret"`
}

// error classes a reason is expected to surface as, where the Matrix specification names one
var classOf = map[string][]string{
	"unsupported": {string(spec.ErrorUnsupportedRoomVersion), string(spec.ErrorIncompatibleRoomVersion)},
	"notallowed":  {string(spec.ErrorForbidden)},
	"joined":      {string(spec.ErrorForbidden)},
}

func pathOf(rec *Rec) string {
	p := "v2"
	if rec.Ver == pseudoVer {
		p = "v3"
	}
	if rec.Ver == unknownVer {
		p = "unknown-version"
	}
	if rec.Local {
		return p + "/local"
	}
	return p + "/remote"
}

func bad(key, what string, want, got interface{}) hx.Result {
	return hx.Result{OK: false, Key: "X05/" + key, What: what, Want: want, Got: got}
}

// signers of the finished invite
func (r *run) signerA() (string, gmsl.KeyID, ed25519.PublicKey) {
	if r.w.pseudo {
		k := roomKey(r.w.inviter)
		return pseudoSID(r.w.inviter), "ed25519:1", k.Public().(ed25519.PublicKey)
	}
	return string(srvA.name), srvA.keyID, srvA.pub
}

// project describes an event in the model's vocabulary.  ref: the event A built (v2 path / local invitee);
// proto: the proto event A sent (v3 path).
func (r *run) project(ev gmsl.PDU, refID string, proto *gmsl.ProtoEvent) AbsEv {
	w := r.w
	js := ev.JSON()
	a := AbsEv{Room: "other", Type: "other", Skey: "other", Mship: "other", Sender: "other"}
	if gjson.GetBytes(js, "room_id").String() == w.room || (domainless(string(w.ver)) && ev.RoomID().String() == w.room) {
		a.Room = "main"
	}
	if ev.Type() == spec.MRoomMember {
		a.Type = "member"
	}
	sk := ev.StateKey()
	switch {
	case sk == nil:
		a.Skey = "none"
	case !w.pseudo && *sk == w.invitee:
		a.Skey = "invitee"
	case w.pseudo && *sk == pseudoSID(w.invitee):
		a.Skey = "ikey"
	}
	if m := gjson.GetBytes(ev.Content(), "membership"); m.Type == gjson.String {
		a.Mship = m.String()
	}
	if string(ev.SenderID()) == w.sid(w.inviter) {
		a.Sender = "inviter"
	}
	if proto != nil {
		a.Same = sameAsProto(js, proto)
	} else {
		a.Same = refID != "" && ev.EventID() == refID
	}
	name, kid, pub := r.signerA()
	a.SigA = validSig(w.impl, js, name, kid, pub)
	switch {
	case w.pseudo:
		// the key that is the state key must have signed
		if sk != nil {
			if raw, err := spec.SenderID(*sk).RawBytes(); err == nil {
				a.SigB = validSig(w.impl, js, *sk, "ed25519:1", ed25519.PublicKey(raw))
			}
		}
	case r.sc.Local:
		a.SigB = a.SigA // one server
	default:
		a.SigB = validSig(w.impl, js, string(srvB.name), srvB.keyID, srvB.pub)
	}
	a.IRS = w.irsClass([]byte(gjson.GetBytes(js, "unsigned.invite_room_state").Raw))
	return a
}

func canon(raw []byte) string {
	c, err := gmsl.CanonicalJSON(raw)
	if err != nil {
		return "!" + string(raw)
	}
	return string(c)
}

// sameAsProto: every field A put into the proto event is unchanged in the completed event
func sameAsProto(js []byte, p *gmsl.ProtoEvent) bool {
	pb, err := json.Marshal(p)
	if err != nil {
		return false
	}
	for _, f := range []string{"type", "room_id", "sender", "content", "depth"} {
		a, b := gjson.GetBytes(js, f), gjson.GetBytes(pb, f)
		if !a.Exists() || !b.Exists() || canon([]byte(a.Raw)) != canon([]byte(b.Raw)) {
			return false
		}
	}
	for _, f := range []string{"auth_events", "prev_events"} {
		if !sameStrings(refIDs(json.RawMessage(gjson.GetBytes(js, f).Raw)), refIDs(json.RawMessage(gjson.GetBytes(pb, f).Raw))) {
			return false
		}
	}
	return true
}

func sortedCopy(s []string) []string {
	o := append([]string{}, s...)
	sort.Strings(o)
	return o
}

func replay(raw json.RawMessage) hx.Result {
	var rec Rec
	if err := json.Unmarshal(raw, &rec); err != nil {
		panic(fmt.Sprintf("x05: bad record: %v", err))
	}
	sc := rec.Sc
	w := worldFor(sc)
	r := &run{sc: sc, w: w, stored: map[string]string{}, answered: "none"}
	in := r.input()
	path := pathOf(&rec)
	reasons := strings.Join(sortedCopy(rec.Reasons), "+")
	if reasons == "" {
		reasons = "none"
	}

	ev, err := gmsl.PerformInvite(context.Background(), in, r)

	// ---- outcome
	libOK := err == nil
	if libOK != (rec.Out.Res == "ok") {
		if libOK {
			if ev == nil {
				return bad(path+"/result/nothing-returned-but-must-fail/"+reasons,
					fmt.Sprintf("PerformInvite returned (nil, nil); the specification refuses the call: %v", rec.Reasons), rec.Out, "ok")
			}
			got := r.describeReturned(ev)
			if clientMode == "untrusted" && got.IRS == "none" {
				got.IRS = rec.Good.IRS // not compared in this mode
			}
			standing := rec.Reasons
			if rec.MayRepair && got == rec.Good {
				// the other design the specification allows: A kept its own event and took only B's signature from the
				// answer - the defect of the answer does not stand against the call
				standing = []string{}
				for _, why := range rec.Reasons {
					if why != "bad_answer" {
						standing = append(standing, why)
					}
				}
				if len(standing) == 0 {
					return hx.Result{OK: true, NT: fmt.Sprintf("%s/repaired/remote=%s", path, sc.Remote)}
				}
				reasons = strings.Join(sortedCopy(standing), "+")
			}
			for _, why := range standing {
				if why == "bad_answer" {
					return bad("remote-answer/"+sc.Remote+"/returned-unchecked",
						fmt.Sprintf("%s: B answered %q instead of the countersigned invite; PerformInvite handed that event to its caller without an error (returned: %+v)",
							path, sc.Remote, got), rec.Out, got)
				}
			}
			return bad(path+"/result/accepted-but-must-fail/"+reasons,
				fmt.Sprintf("PerformInvite returned an event although %v stands against the call", standing), rec.Out, got)
		}
		return bad(path+"/result/refused-but-nothing-stands-against-it/"+errClass(err),
			fmt.Sprintf("nothing stands against this invite, PerformInvite failed with %s (%v)", errClass(err), err), rec.Out, err.Error())
	}
	if !libOK && len(rec.Reasons) == 1 {
		if want, ok := classOf[rec.Reasons[0]]; ok {
			found := false
			for _, c := range want {
				found = found || c == errClass(err)
			}
			if !found {
				return bad(path+"/error-class/"+rec.Reasons[0]+"/got="+errClass(err),
					fmt.Sprintf("only %q stands against the call: the error should be one of %v, got %s (%v)", rec.Reasons[0], want, errClass(err), err),
					want, errClass(err))
			}
		}
	}
	if !libOK && ev != nil {
		return bad(path+"/result/event-with-error", "PerformInvite returned an event together with an error", nil, errClass(err))
	}

	// ---- the wire
	if len(r.sent) != len(rec.Sent) {
		k := "sent-but-must-not"
		if len(r.sent) < len(rec.Sent) {
			k = "not-sent"
		}
		return bad(fmt.Sprintf("%s/wire/%s/%s", path, k, reasons),
			fmt.Sprintf("the specification has %d request(s) to B, the real run %d (reasons against the call: %v)", len(rec.Sent), len(r.sent), rec.Reasons),
			len(rec.Sent), len(r.sent))
	}
	for i, m := range r.sent {
		want := rec.Sent[i]
		if m.api != want.API {
			return bad(path+"/wire/api", fmt.Sprintf("request %d went to the %s invite API, the room version needs %s", i, m.api, want.API), want.API, m.api)
		}
		if c := w.irsClass(m.stripped); c != want.IRS {
			return bad(path+"/wire/stripped-state/"+want.IRS+"->"+c,
				fmt.Sprintf("the stripped state sent with the invite is %q, the specification has %q", c, want.IRS), want.IRS, c)
		}
		switch m.api {
		case "v2":
			sentEv, perr := w.impl.NewEventFromTrustedJSON(m.event, false)
			if perr != nil {
				return bad(path+"/wire/unparsable", "the event on the wire does not parse: "+perr.Error(), nil, string(m.event))
			}
			got := r.project(sentEv, sentEv.EventID(), nil)
			exp := AbsEv{Room: "main", Type: "member", Skey: "invitee", Mship: "invite", Sender: "inviter", Same: true, SigA: true, IRS: want.IRS}
			got.SigB = false // B has not signed yet; whatever stands under its name is not its signature
			if got != exp {
				return bad(path+"/wire/event", fmt.Sprintf("the event on the wire is not the signed invite with the stripped state: %+v", got), exp, got)
			}
			if r.checked == nil || r.checked.EventID() != sentEv.EventID() {
				return bad(path+"/wire/not-the-checked-event", "the event on the wire is not the event A ran its auth check on", nil, sentEv.EventID())
			}
		case "v3":
			p := m.proto
			mship := gjson.GetBytes(p.Content, "membership").String()
			if p.Type != spec.MRoomMember || p.RoomID != w.room || p.SenderID != w.sid(w.inviter) || mship != spec.Invite {
				return bad(path+"/wire/proto", "the proto event on the wire is not an invite of the inviter in the room", nil, p)
			}
			if c := w.irsClass([]byte(gjson.GetBytes(p.Unsigned, "invite_room_state").Raw)); c != want.IRS {
				return bad(path+"/wire/proto-stripped-state/"+want.IRS+"->"+c,
					fmt.Sprintf("unsigned.invite_room_state of the proto event is %q, the specification has %q", c, want.IRS), want.IRS, c)
			}
		}
	}

	// ---- order of A's own auth check and the send
	// (pseudo-ID room, B answered something else than the completed invite: the specification refuses the answer,
	// no property says whether A may run its auth check on it first)
	orderOK := sameStrings(r.order, rec.Order) ||
		(rec.Out.Why == "bad_answer" && w.pseudo && sameStrings(r.order, append(append([]string{}, rec.Order...), "check")))
	if !orderOK {
		return bad(fmt.Sprintf("%s/order/%s-instead-of-%s", path, strings.Join(r.order, ","), strings.Join(rec.Order, ",")),
			fmt.Sprintf("observable steps: specification %v, real run %v (reasons against the call: %v)", rec.Order, r.order, rec.Reasons), rec.Order, r.order)
	}

	// ---- references of the event A built
	if rec.Built.Present {
		var auth, prev []string
		var depth int64
		switch {
		case len(r.sent) > 0 && r.sent[0].proto != nil:
			pb, _ := json.Marshal(r.sent[0].proto)
			auth, prev = refIDs(json.RawMessage(gjson.GetBytes(pb, "auth_events").Raw)), refIDs(json.RawMessage(gjson.GetBytes(pb, "prev_events").Raw))
			depth = r.sent[0].proto.Depth
		case r.checked != nil:
			js := r.checked.JSON()
			auth, prev = refIDs(json.RawMessage(gjson.GetBytes(js, "auth_events").Raw)), refIDs(json.RawMessage(gjson.GetBytes(js, "prev_events").Raw))
			depth = r.checked.Depth()
		default:
			return bad(path+"/built/not-observed", "the specification builds the invite, the real run neither checked nor sent an event", nil, nil)
		}
		wantAuth := []string{}
		for _, tok := range rec.Built.Auth {
			var e gmsl.PDU
			switch tok {
			case "create":
				e = w.create
			case "pl":
				e = w.pl
			case "jr":
				e = w.jr
			case "inviter":
				e = w.inviterEv
			case "invitee":
				e = w.inviteeEv
			}
			if e == nil {
				panic("x05: the specification cites " + tok + ", the world has no such event")
			}
			wantAuth = append(wantAuth, e.EventID())
		}
		if !sameStrings(sortedCopy(auth), sortedCopy(wantAuth)) {
			return bad(path+"/built/auth_events", fmt.Sprintf("auth_events of the built event: want the events for %v", rec.Built.Auth), sortedCopy(wantAuth), sortedCopy(auth))
		}
		wantPrev := r.latest
		if len(wantPrev) > rec.Built.NPrev {
			wantPrev = wantPrev[:rec.Built.NPrev]
		}
		if !sameStrings(prev, wantPrev) {
			return bad(fmt.Sprintf("%s/built/prev_events/latest=%d", path, rec.Built.NLatest),
				fmt.Sprintf("prev_events of the built event: want the first %d of the %d forward extremities, got %d", rec.Built.NPrev, len(r.latest), len(prev)),
				wantPrev, prev)
		}
		if depth != r.depth {
			return bad(path+"/built/depth", "the depth of the built event is not the one reported with the latest events", r.depth, depth)
		}
	}

	// ---- the event handed to the caller
	nt := fmt.Sprintf("%s/%s/%s/remote=%s", path, rec.Out.Res, reasons, sc.Remote)
	if !libOK {
		return hx.Result{OK: true, NT: nt}
	}
	if ev == nil {
		if sc.Local {
			// documented: "On success will return either nothing (in the case of inviting a local user) or ..."
			return hx.Result{OK: true, NT: nt + "/nothing"}
		}
		return bad(path+"/result/nothing-returned", "PerformInvite returned (nil, nil) for a remote invitee", rec.Ret, nil)
	}
	got := r.describeReturned(ev)
	if clientMode == "untrusted" && !sc.Local && got.IRS == "none" {
		// this federation client drops "unsigned" from B's answer: the clause is not compared in this mode (observation)
		got.IRS = rec.Ret.IRS
		nt += "/irs-dropped-by-client"
	}
	if got != rec.Ret {
		k := path + "/returned/" + diffKey(rec.Ret, got)
		if !sc.Local && sc.Remote != "honest" {
			k = "remote-answer/" + sc.Remote + "/returned-unchecked"
		}
		return bad(k, fmt.Sprintf("%s: the event handed to the caller differs from the invite the specification describes in %s (B: %s)",
			path, diffKey(rec.Ret, got), sc.Remote), rec.Ret, got)
	}
	return hx.Result{OK: true, NT: nt}
}

// describeReturned projects the event PerformInvite returned
func (r *run) describeReturned(ev gmsl.PDU) AbsEv {
	if len(r.sent) > 0 && r.sent[0].proto != nil {
		return r.project(ev, "", r.sent[0].proto)
	}
	ref := ""
	if len(r.sent) > 0 {
		ref = gjson.GetBytes(r.sent[0].event, "event_id").String()
		if ref == "" {
			if e, err := r.w.impl.NewEventFromTrustedJSON(r.sent[0].event, false); err == nil {
				ref = e.EventID()
			}
		}
	} else if r.checked != nil {
		ref = r.checked.EventID()
	}
	return r.project(ev, ref, nil)
}

func diffKey(want, got AbsEv) string {
	var d []string
	add := func(n string, a, b interface{}) {
		if a != b {
			d = append(d, fmt.Sprintf("%s:%v->%v", n, a, b))
		}
	}
	add("room", want.Room, got.Room)
	add("type", want.Type, got.Type)
	add("skey", want.Skey, got.Skey)
	add("mship", want.Mship, got.Mship)
	add("sender", want.Sender, got.Sender)
	add("same", want.Same, got.Same)
	add("sigA", want.SigA, got.SigA)
	add("sigB", want.SigB, got.SigB)
	add("irs", want.IRS, got.IRS)
	return strings.Join(d, ",")
}
