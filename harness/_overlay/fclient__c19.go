//go:build verif

package fclient

import (
	"context"
	"net"
	"net/http"
	"sort"
	"syscall"
	"time"
)

// C19 accessors.  DNSCache keeps its resolver, entry map, size and dialer unexported (dnscache_test.go
// injects a resolver the same way), and destinationTripper is unexported altogether.  Everything here is a
// thin accessor: no logic of the library is re-implemented.

// VerifC19Resolver is the shape of the unexported netResolver interface.
type VerifC19Resolver interface {
	LookupIPAddr(context.Context, string) ([]net.IPAddr, error)
}

// VerifC19SetResolver replaces the resolver of the cache (before the cache is shared).
func VerifC19SetResolver(c *DNSCache, r VerifC19Resolver) { c.resolver = r }

// VerifC19ControlFunc is the signature of net.Dialer.ControlContext.
type VerifC19ControlFunc = func(ctx context.Context, network, address string, c syscall.RawConn) error

// VerifC19WrapDialControl wraps the control hook of the cache's dialer (before the cache is shared).
func VerifC19WrapDialControl(c *DNSCache, wrap func(orig VerifC19ControlFunc) VerifC19ControlFunc) {
	c.dialer.ControlContext = wrap(c.dialer.ControlContext)
}

// VerifC19Entry is one entry of the cache as seen under its mutex.
type VerifC19Entry struct {
	Host    string
	Addrs   []string
	Expires time.Time
	Fresh   bool // time.Now().Before(expires), the test lookup applies
}

// VerifC19Snapshot returns the entries ordered by expiry (earliest first: the eviction order) and the size.
func VerifC19Snapshot(c *DNSCache) (entries []VerifC19Entry, size int) {
	c.mutex.Lock()
	defer c.mutex.Unlock()
	now := time.Now()
	for h, e := range c.entries {
		ve := VerifC19Entry{Host: h, Expires: e.expires, Fresh: now.Before(e.expires)}
		for _, a := range e.addrs {
			ve.Addrs = append(ve.Addrs, a.String())
		}
		entries = append(entries, ve)
	}
	sort.Slice(entries, func(i, j int) bool { return entries[i].Expires.Before(entries[j].Expires) })
	return entries, c.size
}

// VerifC19SetExpiry rewrites the expiry instant of host's entry under the mutex (environment step "time
// passes"); false if there is no such entry.
func VerifC19SetExpiry(c *DNSCache, host string, t time.Time) bool {
	c.mutex.Lock()
	defer c.mutex.Unlock()
	e, ok := c.entries[host]
	if !ok {
		return false
	}
	e.expires = t
	return true
}

// VerifC19Lookup calls the unexported lookup.
func VerifC19Lookup(ctx context.Context, c *DNSCache, host string) (addrs []string, cached bool, ok bool) {
	e, cached := c.lookup(ctx, host)
	if e == nil {
		return nil, cached, false
	}
	for _, a := range e.addrs {
		addrs = append(addrs, a.String())
	}
	return addrs, cached, true
}

// VerifC19Tripper wraps the unexported federation round tripper with its transport cache.
type VerifC19Tripper struct{ f *destinationTripper }

// VerifC19NewTripper builds the round tripper exactly as NewClient does.
func VerifC19NewTripper(skipVerify bool, dns *DNSCache, keepAlives bool) *VerifC19Tripper {
	return &VerifC19Tripper{newDestinationTripper(skipVerify, dns, keepAlives, false, nil, nil)}
}

// RoundTrip is destinationTripper.RoundTrip.
func (t *VerifC19Tripper) RoundTrip(r *http.Request) (*http.Response, error) { return t.f.RoundTrip(r) }

// GetTransport is destinationTripper.getTransport with the tripper's own dialer.
func (t *VerifC19Tripper) GetTransport(tlsName string) http.RoundTripper {
	return t.f.getTransport(tlsName, t.f.dialer)
}

// Reaper is destinationTripper.reaper (it re-arms its one-minute timer, as in production).
func (t *VerifC19Tripper) Reaper() { t.f.reaper() }

// VerifC19Transport describes one cached transport.
type VerifC19Transport struct {
	Name       string
	Ptr        http.RoundTripper
	LastUsed   time.Time
	HasUsed    bool   // lastUsed has been stored
	ServerName string // TLSClientConfig.ServerName ("" if not initialised)
	Inited     bool   // embedded http.Transport, TLS config and a dial function are set
}

// VerifC19Describe inspects a transport handed out by GetTransport.
func VerifC19Describe(name string, rt http.RoundTripper) VerifC19Transport {
	d := VerifC19Transport{Name: name, Ptr: rt}
	tr, ok := rt.(*destinationTripperTransport)
	if !ok || tr == nil {
		return d
	}
	if v := tr.lastUsed.Load(); v != nil {
		d.LastUsed, d.HasUsed = v.(time.Time), true
	}
	if tr.Transport != nil && tr.TLSClientConfig != nil {
		d.ServerName = tr.TLSClientConfig.ServerName
		d.Inited = tr.DialContext != nil
	}
	return d
}

// Snapshot lists the cached transports (sorted by TLS name) under the transports mutex.
func (t *VerifC19Tripper) Snapshot() []VerifC19Transport {
	t.f.transportsMutex.Lock()
	defer t.f.transportsMutex.Unlock()
	var out []VerifC19Transport
	for n, tr := range t.f.transports {
		out = append(out, VerifC19Describe(n, tr))
	}
	sort.Slice(out, func(i, j int) bool { return out[i].Name < out[j].Name })
	return out
}

// SetLastUsed rewrites the last-use instant of a cached transport (environment step "time passes").
func (t *VerifC19Tripper) SetLastUsed(name string, at time.Time) bool {
	t.f.transportsMutex.Lock()
	defer t.f.transportsMutex.Unlock()
	tr, ok := t.f.transports[name]
	if !ok {
		return false
	}
	tr.lastUsed.Store(at)
	return true
}
