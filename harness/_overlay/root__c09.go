//go:build verif

package gomatrixserverlib

import "github.com/matrix-org/gomatrixserverlib/spec"

// VerifChecker exposes the reusable auth checker (allowerContext) exactly as state resolution drives it:
// one context, one provider that is cleared and refilled before every check, update() then allowed().
type VerifChecker struct {
	a *allowerContext
	p *AuthEvents
}

// NewVerifChecker creates a checker over an empty provider for the given room.
func NewVerifChecker(q spec.UserIDForSender, roomID spec.RoomID) *VerifChecker {
	p, _ := NewAuthEvents(nil)
	return &VerifChecker{a: newAllowerContext(p, q, roomID), p: p}
}

// Check loads the given state into the shared provider (Clear + AddEvent, as authAndApplyEvents does),
// refreshes the context and judges the event.
func (c *VerifChecker) Check(state []PDU, event PDU) error {
	c.p.Clear()
	for _, e := range state {
		if err := c.p.AddEvent(e); err != nil {
			return err
		}
	}
	c.a.update(c.p)
	return c.a.allowed(event)
}
