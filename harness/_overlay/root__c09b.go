//go:build verif

package gomatrixserverlib

import "github.com/matrix-org/gomatrixserverlib/spec"

// VerifAuthAndApplyBatch drives the state resolver's authAndApplyEvents over ONE batch of events exactly as
// ResolveStateConflictsV2 does: a resolver set up as there (one checker, one provider, the map of known auth events,
// the caller's isRejected), the given partial state applied, then the batch auth'd and applied in the given order.
// It returns the partial state afterwards.
func VerifAuthAndApplyBatch(q spec.UserIDForSender, roomID spec.RoomID, partial, authEvents, batch []PDU, isRejected IsRejected) []PDU {
	authProvider, _ := NewAuthEvents(nil)
	r := stateResolverV2{
		authEventMap:              eventMapFromEvents(authEvents),
		authProvider:              authProvider,
		conflictedEventMap:        eventMapFromEvents(batch),
		powerLevelContents:        make(map[string]*PowerLevelContent),
		powerLevelMainlinePos:     make(map[string]int),
		resolvedThirdPartyInvites: make(map[string]PDU),
		resolvedMembers:           make(map[spec.SenderID]PDU),
		resolvedOthers:            make(map[StateKeyTuple]PDU),
		isRejectedFn:              isRejected,
		isRejectedCache:           make(map[string]bool),
	}
	r.allower = newAllowerContext(r.authProvider, q, roomID)
	r.applyEvents(partial...)
	r.authAndApplyEvents(batch...)
	var out []PDU
	for _, e := range []PDU{r.resolvedCreate, r.resolvedJoinRules, r.resolvedPowerLevels} {
		if e != nil {
			out = append(out, e)
		}
	}
	for _, e := range r.resolvedMembers {
		out = append(out, e)
	}
	for _, e := range r.resolvedThirdPartyInvites {
		out = append(out, e)
	}
	for _, e := range r.resolvedOthers {
		out = append(out, e)
	}
	return out
}

// CheckKeeping is Check for a caller that uses the provider incrementally: no Clear, every given event replaces the
// entry of its (type, state_key) pair.  (Entries for pairs the given state does not name are kept: the caller makes
// sure there are none when the provider is to hold exactly the given state.)
func (c *VerifChecker) CheckKeeping(state []PDU, event PDU) error {
	for _, e := range state {
		if err := c.p.AddEvent(e); err != nil {
			return err
		}
	}
	c.a.update(c.p)
	return c.a.allowed(event)
}
