//go:build verif

package fclient

import (
	"sync/atomic"
	"unsafe"
)

// C19 (wave 9) accessors: the transports mutex of the federation round tripper as a scheduler gate.
//
// getTransport and reaper are single critical sections on transportsMutex with no yield point inside or
// directly behind them, so the only way to decide the order of two of them - and to let the second start at
// the very instant the first leaves the critical section - is the mutex itself: the replay holds it, lets the
// callers queue up on it in the order of the schedule (MapWaiters tells when a caller has joined the queue),
// and releases it.  Nothing of the library is re-implemented: the queued goroutines run the real getTransport
// / reaper.

// LockMap acquires destinationTripper.transportsMutex.
func (t *VerifC19Tripper) LockMap() { t.f.transportsMutex.Lock() }

// UnlockMap releases destinationTripper.transportsMutex.
func (t *VerifC19Tripper) UnlockMap() { t.f.transportsMutex.Unlock() }

// MapState decodes the state word of transportsMutex (sync.Mutex: state int32 is the first field; bit 0 locked,
// bit 1 woken = a waiter has been woken and has not yet taken the mutex or queued up again, bit 2 starvation mode =
// Unlock hands the mutex directly to the first waiter, the remaining bits count the waiters).
func (t *VerifC19Tripper) MapState() (waiters int, woken, starving bool) {
	state := atomic.LoadInt32((*int32)(unsafe.Pointer(&t.f.transportsMutex)))
	return int(state >> 3), state&2 != 0, state&4 != 0
}

// Addr is the address of the round tripper (the receiver shown in goroutine dumps of getTransport / reaper).
func (t *VerifC19Tripper) Addr() uintptr { return uintptr(unsafe.Pointer(t.f)) }
