//go:build verif

package fclient

import (
	"context"
	"syscall"
)

// C16 accessors: the dialer control hook that enforces the allow / deny network lists is
// unexported and is only ever reached through a net.Dialer buried in the transports.

// VerifC16ControlFunc is the signature of net.Dialer.ControlContext.
type VerifC16ControlFunc = func(ctx context.Context, network, address string, c syscall.RawConn) error

// VerifC16TripperControl returns the control hook of the dialer NewClient builds for the given
// lists (nil when the client installs none).
func VerifC16TripperControl(allow, deny []string) VerifC16ControlFunc {
	return newDestinationTripperDialer(allow, deny).ControlContext
}

// VerifC16DNSCacheControl returns the control hook of the dialer inside a DNSCache.
func VerifC16DNSCacheControl(c *DNSCache) VerifC16ControlFunc {
	return c.dialer.ControlContext
}
