//go:build verif

package fclient

import (
	"sort"
	"time"
)

// C19 trace-validation accessors (code -> spec direction, DNSCache_trace.tla).  The recorder lets real
// goroutines run freely on one DNSCache; the two environment events of the design that touch the entry map,
// "time passes beyond the expiry of h's entry" and "the map is observed", are performed under the cache's OWN
// mutex and take their log stamp while the mutex is held, so that their position in the recorded order is
// exactly their position among the critical sections of the library.  Nothing of the library is
// re-implemented here.

// VerifC19TEntry is one entry of the cache as seen under its mutex.
type VerifC19TEntry struct {
	Host  string
	Addrs []string
	Fresh bool // time.Now().Before(expires): the test lookup applies
}

// VerifC19TSnapshot returns the entries ordered by expiry (earliest first: the eviction order), the stamp taken
// under the mutex, the configured size and whether two entries carry the same expiry instant (the order of
// those two is then arbitrary).
func VerifC19TSnapshot(c *DNSCache, stamp func() int64) (entries []VerifC19TEntry, at int64, size int, tie bool) {
	c.mutex.Lock()
	defer c.mutex.Unlock()
	now := time.Now()
	type ent struct {
		e   VerifC19TEntry
		exp time.Time
	}
	var es []ent
	for h, e := range c.entries {
		ve := VerifC19TEntry{Host: h, Fresh: now.Before(e.expires)}
		for _, a := range e.addrs {
			ve.Addrs = append(ve.Addrs, a.String())
		}
		es = append(es, ent{ve, e.expires})
	}
	sort.Slice(es, func(i, j int) bool {
		if es[i].exp.Equal(es[j].exp) {
			return es[i].e.Host < es[j].e.Host
		}
		return es[i].exp.Before(es[j].exp)
	})
	for i := range es {
		if i > 0 && es[i].exp.Equal(es[i-1].exp) {
			tie = true
		}
		entries = append(entries, es[i].e)
	}
	return entries, stamp(), c.size, tie
}

// VerifC19TExpire is the environment step Expire(h): if the cache holds an unexpired entry for host, its expiry
// instant is moved into the past (to past(stamp), so that entries expired later carry later instants, as the
// ranks of the design do) and the stamp taken under the mutex is returned.  Otherwise nothing happens.
func VerifC19TExpire(c *DNSCache, host string, stamp func() int64, past func(stamp int64) time.Time) (at int64, done bool) {
	c.mutex.Lock()
	defer c.mutex.Unlock()
	e, ok := c.entries[host]
	if !ok || !time.Now().Add(10*time.Second).Before(e.expires) {
		return 0, false
	}
	at = stamp()
	e.expires = past(at)
	return at, true
}
